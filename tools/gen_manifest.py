#!/usr/bin/env python3
"""Regenerates /verif/MANIFEST.json from the table below and validates it against the schema."""
import json
import os
import subprocess
import sys

HERE = os.path.dirname(os.path.abspath(__file__))
VERIF = os.path.dirname(HERE)

TECH = "explicit TLA+ spec checked by TLC + trace validation of the real code against it"

CHECKS = {
    "C01": dict(
        engine="QtlPipeline",
        level="model_checking",
        text="QtlPipeline.tla models Pipeline::process as a small-step frame machine (Enter/Null/Leaf/Leave) next to an "
             "independent big-step transcription of the statement; TLC proves they agree (Agree) and the frame-discipline "
             "action properties on every wiring of <= 4 (thorough 5) entries over 2 (3) pipelines incl. sharing and nulls, plus "
             "simulation of a 12-handler menu. The real classes are bound by trace validation: random trees built through the "
             "public API, every observable handler call logged with the message state it sees, TLC replays the trace through "
             "the spec's actions.",
        design="5/C01",
        note="Trusts TLC; built-in handlers are unobserved (effect inferred by the spec, checked at the next observation); "
             "formatters returning a null string are excluded.",
        technique=TECH,
    ),
    "C02": dict(
        engine="QtlThreads",
        level="model_checking",
        text="QtlThreads.tla models Logger::processMessage and OwnThreadHandler with one program counter per thread and one action per lock "
             "operation / access to m_thread, m_worker, m_pendingCount / pipeline step; the pc values are the names of the guarded "
             "verification points in the code. TLC proves: MutualExclusion, NoDoubleDelivery, SeqConsecutive, ProducerOrder, SyncDeliveredOnReturn on 3-4 producers x 2 messages with the sequence counter read and written in separate steps (a variant whose mutexes exclude nobody must violate MutualExclusion). Binding: 2-48 producer threads through QMessageLogger into a real Logger and a bare OwnThreadHandler<Pipeline>; each recorded execution (call begin/end, points with the "
             "scalars they carry, probe events inside the pipeline) is validated by TLC against the module.",
        design="5/C02",
        note="Schedules of the real code are the ones seeded jitter produces; mutex releases are not events (conf.eager); C04 is claimed for "
             "the safe environment, the no-application paths are a known finding.",
        technique=TECH,
    ),
    "C03": dict(
        engine="QtlThreads",
        level="model_checking",
        text="QtlThreads.tla models Logger::processMessage and OwnThreadHandler with one program counter per thread and one action per lock "
             "operation / access to m_thread, m_worker, m_pendingCount / pipeline step; the pc values are the names of the guarded "
             "verification points in the code. TLC proves: AsyncOrder (deliveries follow the hand-off order), WorkerOnly, NoDoubleDelivery, SeqConsecutive with liveness ResetTerminates on 2-3 producers. Binding: asynchronous scenarios with heap-allocated context strings destroyed after the call, gated sinks (callers must return while nothing is delivered), every LogMessage accessor compared with what the producer passed; each recorded execution (call begin/end, points with the "
             "scalars they carry, probe events inside the pipeline) is validated by TLC against the module.",
        design="5/C03",
        note="Schedules of the real code are the ones seeded jitter produces; mutex releases are not events (conf.eager); C04 is claimed for "
             "the safe environment, the no-application paths are a known finding.",
        technique=TECH,
    ),
    "C04": dict(
        engine="QtlThreads",
        level="model_checking",
        text="QtlThreads.tla models Logger::processMessage and OwnThreadHandler with one program counter per thread and one action per lock "
             "operation / access to m_thread, m_worker, m_pendingCount / pipeline step; the pc values are the names of the guarded "
             "verification points in the code. TLC proves: DrainBeforeStop, NoUseAfterFree, LateMessagesSync, AllDeliveredAtEnd and liveness ResetTerminates over quit / explicit reset / destructor / start-stop cycles and a second concurrent stopper, and QuitFindsHook when a second thread without an event loop switches asynchronous mode on (the unrepaired double-stop variant, the no-application environment and the variant that leaves the thread object on the calling thread must violate). Binding: move/reset scripts on one or two stopper threads racing the producers, plus one child process per stop path (application quit, explicit reset, cycles, logger destroyed while the application lives, singleton destroyed at exit, asynchronous mode switched on by a second thread); each recorded execution (call begin/end, points with the "
             "scalars they carry, probe events inside the pipeline) is validated by TLC against the module.",
        design="5/C04",
        note="Schedules of the real code are the ones seeded jitter produces; mutex releases are not events (conf.eager); C04 is claimed for "
             "the safe environment, the no-application paths are a known finding.",
        technique=TECH,
    ),
    "C05": dict(
        engine="QtlRotation",
        level="model_checking",
        text="QtlRotation.tla models FileSink/RotatingFileSink as a program-counter machine with one labelled step per libc call on the "
             "log directory (open/write/close/rename/unlink), QFile's write buffer, crash between any two steps and failing calls; "
             "TLC exhausts MC_Rot_C05_<tier>.cfg and proves: ReadBackIsHistory/NoDuplicates: rotated files in rotation order + active file + buffer = history minus retention-removed files, in every state. Binding: histories run on the real sink under an in-binary libc "
             "interposer (virtual clock and mtimes, one trace event per libc call, crash-before-call-k children, errno injection); "
             "TLC validates every event and every real directory listing against the module with all invariants on.",
        design="5/C05",
        note="Crash points are system-call boundaries; byte-level framing and gzip decoding are done by the projection (python zlib, GNU "
             "gzip), not by TLA+; environment rules in DESIGN 3.1j.",
        technique=TECH,
    ),
    "C06": dict(
        engine="QtlRotation",
        level="model_checking",
        text="QtlRotation.tla models FileSink/RotatingFileSink as a program-counter machine with one labelled step per libc call on the "
             "log directory (open/write/close/rename/unlink), QFile's write buffer, crash between any two steps and failing calls; "
             "TLC exhausts MC_Rot_C06_<tier>.cfg and proves: CountBound, SurvivorsAreRecentSuffix, NoRetentionWhenUnlimited, NoRotationWhenOne, ForeignUntouched. Binding: histories run on the real sink under an in-binary libc "
             "interposer (virtual clock and mtimes, one trace event per libc call, crash-before-call-k children, errno injection); "
             "TLC validates every event and every real directory listing against the module with all invariants on.",
        design="5/C06",
        note="Crash points are system-call boundaries; byte-level framing and gzip decoding are done by the projection (python zlib, GNU "
             "gzip), not by TLA+; environment rules in DESIGN 3.1j.  Time zones (the local date going back) are part of the model "
             "(MC_Rot_C06_zone.cfg); one situation there is a known finding (known_findings.txt key=zone-tie, DESIGN 12.3).",
        technique=TECH,
    ),
    "C07": dict(
        engine="QtlRotation",
        level="model_checking",
        text="QtlRotation.tla models FileSink/RotatingFileSink as a program-counter machine with one labelled step per libc call on the "
             "log directory (open/write/close/rename/unlink), QFile's write buffer, crash between any two steps and failing calls; "
             "TLC exhausts MC_Rot_C07_<tier>.cfg and proves: SizeBound (every plain/gz file and active+buffer within L unless a single record). Binding: histories run on the real sink under an in-binary libc "
             "interposer (virtual clock and mtimes, one trace event per libc call, crash-before-call-k children, errno injection); "
             "TLC validates every event and every real directory listing against the module with all invariants on.",
        design="5/C07",
        note="Crash points are system-call boundaries; byte-level framing and gzip decoding are done by the projection (python zlib, GNU "
             "gzip), not by TLA+; environment rules in DESIGN 3.1j.",
        technique=TECH,
    ),
    "C08": dict(
        engine="QtlRotation",
        level="model_checking",
        text="QtlRotation.tla models FileSink/RotatingFileSink as a program-counter machine with one labelled step per libc call on the "
             "log directory (open/write/close/rename/unlink), QFile's write buffer, crash between any two steps and failing calls; "
             "TLC exhausts MC_Rot_C08_<tier>.cfg and proves: GzFaithful and the action property OrigRemovedOnlyAfterGzClosed; gzip validity/CRC/ISIZE delegated to two independent decoders in the projection. Binding: histories run on the real sink under an in-binary libc "
             "interposer (virtual clock and mtimes, one trace event per libc call, crash-before-call-k children, errno injection); "
             "TLC validates every event and every real directory listing against the module with all invariants on.",
        design="5/C08",
        note="Crash points are system-call boundaries; byte-level framing and gzip decoding are done by the projection (python zlib, GNU "
             "gzip), not by TLA+; environment rules in DESIGN 3.1j.",
        technique=TECH,
    ),
    "C09": dict(
        engine="QtlRotation",
        level="model_checking",
        text="QtlRotation.tla models FileSink/RotatingFileSink as a program-counter machine with one labelled step per libc call on the "
             "log directory (open/write/close/rename/unlink), QFile's write buffer, crash between any two steps and failing calls; "
             "TLC exhausts MC_Rot_C09_<tier>.cfg and proves: DaysApart, NameCarriesDay and the action property NamesNeverReused (fresh name, index above every index ever used that day). Binding: histories run on the real sink under an in-binary libc "
             "interposer (virtual clock and mtimes, one trace event per libc call, crash-before-call-k children, errno injection); "
             "TLC validates every event and every real directory listing against the module with all invariants on.",
        design="5/C09",
        note="Crash points are system-call boundaries; byte-level framing and gzip decoding are done by the projection (python zlib, GNU "
             "gzip), not by TLA+; environment rules in DESIGN 3.1j.",
        technique=TECH,
    ),
    "C10": dict(
        engine="QtlRotation",
        level="model_checking",
        text="QtlRotation.tla models FileSink/RotatingFileSink as a program-counter machine with one labelled step per libc call on the "
             "log directory (open/write/close/rename/unlink), QFile's write buffer, crash between any two steps and failing calls; "
             "TLC exhausts MC_Rot_C10_<tier>.cfg and proves: FlushedRecoverable in every state (= at every crash point), with Crash enabled between any two libc steps and one failing rename/create/open/delete. Binding: histories run on the real sink under an in-binary libc "
             "interposer (virtual clock and mtimes, one trace event per libc call, crash-before-call-k children, errno injection); "
             "TLC validates every event and every real directory listing against the module with all invariants on.",
        design="5/C10",
        note="Crash points are system-call boundaries; byte-level framing and gzip decoding are done by the projection (python zlib, GNU "
             "gzip), not by TLA+; environment rules in DESIGN 3.1j.",
        technique=TECH,
    ),
    "C11": dict(
        engine="QtlRotation",
        level="model_checking",
        text="The fatal path is part of QtlRotation / MC_Rotation: any history, then the fatal record, the flush Logger::processMessage "
             "performs, then Abort; TLC proves FatalDurableInv (nothing left in QFile's buffer at the abort, every record flushed) on "
             "MC_Rot_C11_<tier>.cfg, and a variant without the flush must violate it. Binding: child processes killed by qFatal (plain / "
             "rotating sinks, 1-3 sinks flat, nested or via the one-line configure, an earlier sink whose flush() fails, 0-5000 preceding "
             "messages around the 16 KiB buffer, fatal from a secondary thread); the interposer's libc events and the files found after the "
             "death are validated by TLC (event Fatal requires FatalDurable and the spec's directory).",
        design="5/C11",
        note="Synchronous logger only (as the statement says); the kernel is assumed to keep completed write() calls across abort().",
        technique=TECH,
    ),
    "C12": dict(
        engine="QtlPattern",
        level="model_checking",
        text="QtlPattern.tla transcribes docs/api/formatters.md as Format(tokens, type): literal text, placeholders, type conditionals, "
             "optional attributes with removal of surrounding literal text, and Field(value, spec) for the three documented modes "
             "(padding only, truncation only, truncate-and-pad; centre padding with the extra unit on the right). TLC checks on an "
             "exhaustive small universe the width laws, the verbatim law (an untruncated value is a contiguous part of its field, the rest "
             "is fill) and equality with a second, look-ahead formulation. Binding: token lists rendered to pattern text by the documented "
             "syntax, formatted by the real PatternFormatter, TLC requires output = Format(tokens, type) for every case.",
        design="5/C12",
        note="Undocumented corners are not generated (absent non-optional attribute, ?N,M not surrounded by literal text, %{func}, %{time "
             "process|boot}, token-less patterns, a leading U+FEFF in UTF-8 context strings); thread id / QThread pointer / formatted "
             "times are taken from the library and Qt.",
        technique="explicit TLA+ transcription of the documented rules checked by TLC + validation of recorded results of the real code against it",
    ),
    "C13": dict(
        engine="QtlJson",
        level="model_checking",
        text="QtlJson.tla states JsonObligations over abstract JSON values: the parsed output is one object with exactly the built-in keys "
             "and the custom attribute names, from which type, text, category, file, function, line and every attribute value (string, "
             "number, bool, list, map) are recovered exactly, and compact => no line break. TLC evaluates the obligations on every "
             "recorded result of the real JsonFormatter (both modes); helper functions are checked on concrete values by MC_Json.",
        design="5/C13",
        note="Syntactic validity, unescaping and 'exactly one value' are decided by the projection (Python json), not by TLA+.",
        technique="explicit TLA+ obligations evaluated by TLC on recorded results of the real code (trace validation)",
    ),
    "C15": dict(
        engine="QtlCategory",
        level="model_checking",
        text="QtlCategory.tla defines glob matching and ordered last-match-wins evaluation twice (fold, statement form); TLC "
             "proves them equal and the glob algebra on an exhaustive small universe. The real CategoryFilter is bound through "
             "QtlPipeline's 'cat' handler: rule lists rendered to text with separators/blanks/garbage, each probed with "
             "(category, type) messages; TLC rejects the trace if a verdict differs from Verdict(rules, cat, type).",
        design="5/C15",
        note="The meaning of a rendered rule line follows the stated grammar (vlib/catrules.py); printable ASCII.",
        technique=TECH,
    ),
    "C16": dict(
        engine="QtlPipeline",
        level="model_checking",
        text="The decision rules LevelRule/DupRule/RegexRule/SeqRule are part of QtlPipeline.tla (checked exhaustively with the "
             "pipeline model and by simulation over the full menu); the real LevelFilter, DuplicateFilter, RegExpFilter, "
             "SeqNumberAttr run unobserved inside recorded traces (trees and 20-200 message sequences, handlers shared "
             "between pipelines, confusable texts) and TLC checks every later observation against the rules.",
        design="5/C16",
        note="Regular expressions come from a menu whose meaning is definable on code-unit sequences.",
        technique=TECH,
    ),
    "C17": dict(
        engine="QtlSorted",
        level="model_checking",
        text="TLC exhausts every call sequence up to 6 (quick) / 7 (thorough) calls of QtlSorted.tla - including calls "
             "that pass a handler object a second time - and checks ClassSorted/OneFormatter/StableWithinClass on the "
             "documented placement rule; in the thorough tier Apalache additionally shows that their conjunction is "
             "inductive for all lists of up to 5 entries (spec/ApaSorted.tla). The real SortedPipeline is bound to the "
             "module by trace validation: all sequences of 4 (5) calls plus random long ones are executed on the real "
             "class and every resulting handlers() list must be the spec's next state.",
        design="5/C17",
        note="Trusts TLC, the Json community module, and the driver's numbering of handlers in call order.",
        technique=TECH,
    ),
    "C18": dict(
        engine="QtlJson",
        level="model_checking",
        text="QtlJson.tla states SentryObligations: 32-hex event id that is fresh over the whole trace (state variable ids), timestamp = "
             "message time in UTC to the second (IsoUtc), level map, message.formatted, logger iff non-default category, fingerprint "
             "[level, category or default, first 100 code units], every custom attribute exactly once in its slot or under extra and no "
             "slot filled without its attribute. TLC evaluates them on every recorded result of the real SentryFormatter (two time zones); "
             "MC_Json checks the obligations on hand-written good / stale-id / misfiled / wrong-level events.",
        design="5/C18",
        note="Parsing is the projection's (Python json); a non-string value in a dedicated slot is accepted as itself or as its usual text.",
        technique="explicit TLA+ obligations evaluated by TLC on recorded results of the real code (trace validation)",
    ),
    "C19": dict(
        engine="QtlConfig",
        level="model_checking",
        text="QtlConfig.tla composes QtlCategory (Verdict), the regular-expression menu and QtlPattern (Format) into IniObligations: every "
             "configured output (stdout, stderr, platform log = stderr, file) receives the line of every message that passes both filters, "
             "once per configured writer and in order, and nothing else receives anything; OneLineObligations: the file holds the console "
             "text minus ESC[...m colour codes (StripAnsi); and the handler-slot machine Install / Restore / Foreign with the action "
             "properties RestoreReinstates, NewerForeignStays, InstallIdempotent, exhausted by TLC. Binding: one child process per generated "
             "INI file / one-line argument set (stdout, stderr and the log file captured) and in-process install/restore/foreign histories "
             "with the current Qt handler read after every step; TLC validates every recorded event.",
        design="5/C19",
        note="Pipes are not terminals, so the colour keys add no colour codes; the default pretty line is checked by shape; syslog / journal "
             "/ HTTP keys are not compiled in.",
        technique=TECH,
    ),
}

NOT_APPLICABLE = {
    "C14": "memory safety / termination on arbitrary 64 KiB byte strings is a machine-level property; a TLA+ model "
           "would assume the in-bounds accesses it is meant to show (DESIGN.md section 7)",
    "C20": "truth is defined as the byte output of tools/gen_qtlogger.h.py; there is no state or transition to model, "
           "only a byte comparison (DESIGN.md section 7)",
}

NOT_YET = "check not built yet in this round (planned, see DESIGN.md section 11)"


def main():
    props = [json.loads(l)["id"] for l in open(os.path.join(VERIF, "properties.jsonl"))]
    checks = []
    for pid in props:
        if pid not in CHECKS:
            continue
        c = CHECKS[pid]
        checks.append({
            "property_id": pid,
            "quick_cmd": f"./check {pid} quick",
            "thorough_cmd": f"./check {pid} thorough",
            "evidence_file": f"/verif/evidence/{pid}.json",
            "replay_cmd_template": f"./check {pid} --replay {{path}}",
            "engine": c["engine"],
            "level_claimed": {"category": c["level"], "text": c["text"], "design_ref": c["design"]},
            "level_note": c["note"],
            "technique": c["technique"],
        })
    na = []
    for pid in props:
        if pid in CHECKS:
            continue
        na.append({"property_id": pid, "reason": NOT_APPLICABLE.get(pid, NOT_YET)})
    engines = {}
    for pid, c in CHECKS.items():
        engines.setdefault(c["engine"], []).append(pid)
    man = {
        "version": 1,
        "setup_cmd": "./check --setup",
        "hooks": {
            "guard": "QTLOGGER_VERIF",
            "enable": "harness/CMakeLists.txt compiles /repo/src/qtlogger via add_subdirectory with "
                      "-DQTLOGGER_VERIF in CMAKE_CXX_FLAGS (see vlib/common.py ensure_harness)",
            "baseline_off_cmd": "cmake -G Ninja -S /repo -B /repo/_build >/dev/null && "
                                "(cmake --build /repo/_build -j16 -- -k 0 >/dev/null 2>&1; "
                                "ctest --test-dir /repo/_build -j8 --timeout 900)",
            "source_commits": HOOK_COMMITS,
            "add_only": True,
        },
        "engines": [{"name": n, "path": f"/verif/spec/{n}.tla", "serves_properties": sorted(p),
                     "kind_free_text": "TLA+ module checked with TLC (exhaustive + trace validation)"}
                    for n, p in sorted(engines.items())] +
                   [{"name": n, "path": f"/verif/spec/{n}.tla", "serves_properties": [],
                     "kind_free_text": "TLA+ module beyond the listed properties (" + what + "); checked with TLC and bound by trace "
                                       "validation, reported as NOTE lines of " + host + ", never as a verdict"}
                    for n, what, host in (("QtlPretty", "PrettyFormatter's thread-index / category-width automaton", "C19"),
                                          ("QtlUtils", "setMessagePattern / restorePrevious, setFilterRules, time pattern in file names", "C19"),
                                          ("QtlSignal", "SignalSink: direct and posted slot calls", "C03"),
                                          ("QtlHttp", "HttpSink: one POST per message", "C18"),
                                          ("QtlEnv", "AppInfoAttrs / SysInfoAttrs snapshots, AppUuidAttr's persistent UUID across process "
                                                     "restarts; also an inductive invariant discharged by Apalache (ApaEnv.tla)", "C01"),
                                          ("QtlLineSinks", "IODeviceSink and SyslogSink: line per message, priority table, process-wide log, "
                                                           "lifetime of the ident pointer", "C01"))],
        "checks": checks,
        "not_applicable": na,
        "notes": "Every claimed property is decided by a TLA+ module under /verif/spec checked with TLC and bound to the "
                 "implementation by trace validation / replay (DESIGN.md). known_findings.txt lists repaired defects "
                 "(fixed:) and open findings (finding:).",
    }
    out = os.path.join(VERIF, "MANIFEST.json")
    open(out, "w").write(json.dumps(man, indent=1) + "\n")
    r = subprocess.run(["python3-vt", "-c", "import json,jsonschema,sys;"
                        "jsonschema.validate(json.load(open(sys.argv[1])), json.load(open(sys.argv[2])));print('MANIFEST valid')",
                        out, "/root/.vp/MANIFEST.schema.json"])
    return r.returncode


HOOK_COMMITS = ["086870a", "9fba8b4"]

if __name__ == "__main__":
    sys.exit(main())
