#!/usr/bin/env python3
"""Regression over everything under seeded/: every seeded change must still be reported by the quick tier of its
property's check, every benign refactoring must pass all related checks.

  tools/regress.py [name ...]        default: all directories under seeded/ that hold a patch

The patch is applied to the working tree named by VERIF_REPO (default /repo) - use scratch copies when anything else
is running:   rsync -a --exclude .build --exclude replays --exclude .git /verif/ /tmp/x/verif/ ; git clone /repo /tmp/x/repo ;
              cd /tmp/x/verif && VERIF_REPO=/tmp/x/repo tools/regress.py
Evidence files are put back after every check.  Results: seeded/regression.json."""
import json
import os
import shutil
import subprocess
import sys
from pathlib import Path

VERIF = Path(__file__).resolve().parents[1]
REPO = Path(os.environ.get("VERIF_REPO", "/repo"))

BENIGN = {
    "benign_B1": ["C05", "C06", "C07", "C08", "C09", "C10", "C11"],
    "benign_B5": ["C05", "C06", "C07", "C08", "C09", "C10", "C11"],
    "benign_B2": ["C02", "C03", "C04"],
    "benign_B6": ["C02", "C03", "C04"],
    "benign_B3": ["C12", "C13", "C18", "C19"],
    "benign_B7": ["C12", "C13", "C18", "C19"],
    "benign_B4": ["C01", "C15", "C16", "C17", "C19", "C11"],
    "benign_B8": ["C01", "C15", "C16", "C17", "C19", "C11"],
    "benign_B9": ["C19", "C11", "C02", "C03", "C04", "C05"],
    "benign_B10": ["C01", "C16", "C17", "C11", "C12", "C15", "C19"],
    "benign_B11": ["C12", "C15", "C16", "C13", "C18", "C19", "C01"],
    "benign_B12": ["C05", "C06", "C07", "C08", "C09", "C10", "C11", "C02", "C03", "C04"],
    "benign_B13": ["C19", "C11", "C01", "C17", "C02", "C03", "C04"],
    "benign_B14": ["C05", "C06", "C07", "C08", "C09", "C10", "C11"],
    "benign_B15": ["C15", "C16", "C13", "C18", "C17", "C01", "C19"],
}
# seeds that are, correctly, not reported (they do not break the property on its domain)
EXPECT_QUIET = {"C13e"}


ONLY = set(filter(None, os.environ.get("REGRESS_ONLY", "").split(",")))     # restrict to these checks (when given)


def checks_for(name):
    if name in BENIGN:
        return [c for c in BENIGN[name] if not ONLY or c in ONLY]
    if name == "mutants":
        return []
    return [name[:3]]


def run_check(c):
    ev = VERIF / "evidence" / f"{c}.json"
    bak = Path(f"/tmp/evidence_{c}.{os.getpid()}")
    if ev.exists():
        shutil.copy(ev, bak)
    p = subprocess.run(["./check", c, "quick"], cwd=VERIF, capture_output=True, text=True,
                       env=dict(os.environ, VERIF_REPLAYS=f"/tmp/replays_regress_{os.getpid()}", VERIF_REPO=str(REPO)))
    if bak.exists():
        shutil.copy(bak, ev)
        bak.unlink()
    out = p.stdout + p.stderr
    return {"rc": p.returncode, "violations": sum(1 for l in out.splitlines() if l.startswith("VIOLATION")),
            "tail": out[-400:] if p.returncode not in (0, 1) else ""}


def main():
    names = sys.argv[1:] or sorted(d.name for d in (VERIF / "seeded").iterdir() if (d / "patch.diff").exists())
    st = subprocess.run(["git", "-C", str(REPO), "status", "--porcelain", "--untracked-files=no"], capture_output=True, text=True).stdout
    if st.strip():
        print(f"{REPO} is not clean:\n{st}")
        return 2
    outp = VERIF / "seeded" / "regression.json"
    results = json.loads(outp.read_text()) if outp.exists() else {}
    bad = 0
    for n in names:
        d = VERIF / "seeded" / n
        patch = d / "patch_current.diff" if (d / "patch_current.diff").exists() else d / "patch.diff"
        a = subprocess.run(["git", "-C", str(REPO), "apply", "--whitespace=nowarn", "--exclude=qtlogger.h", str(patch)],
                           capture_output=True, text=True)
        if a.returncode != 0:
            print(f"{n:18s} patch does not apply: {a.stderr.strip()[:200]}", flush=True)
            results[n] = {"applies": False}
            continue
        try:
            r = {c: run_check(c) for c in checks_for(n)}
        finally:
            subprocess.run(["git", "-C", str(REPO), "checkout", "--", "."], check=True)
        viol = sum(v["violations"] for v in r.values())
        broken = [c for c, v in r.items() if v["rc"] not in (0, 1)]
        if n in BENIGN or n in EXPECT_QUIET:
            ok = viol == 0 and not broken
            verdict = "quiet (as it should be)" if ok else "FALSE ALARM" if viol else "TOOL FAILURE"
        else:
            ok = viol > 0
            verdict = "reported" if ok else "MISSED"
        bad += 0 if ok else 1
        print(f"{n:18s} {verdict:24s} " + " ".join(f"{c}:rc={v['rc']},viol={v['violations']}" for c, v in r.items()), flush=True)
        results[n] = {"verdict": verdict, "checks": r}
        outp.write_text(json.dumps(results, indent=1, sort_keys=True))
    return 1 if bad else 0


if __name__ == "__main__":
    sys.exit(main())
