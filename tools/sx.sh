#!/bin/bash
# sx.sh <slot> <seed-dir|-> <tier> <check>...   run checks against a seeded change in a scratch pair
# /tmp/sx<slot>/{verif,repo} (copy of /verif without build output, clone of /repo), so that /repo and /verif/.build
# stay untouched while other work is running.  "-" as seed dir = unchanged tree.
SLOT=$1; SEED=$2; TIER=$3; shift 3
X=/tmp/sx$SLOT; mkdir -p $X
if [ ! -d $X/repo/.git ]; then git clone -q /repo $X/repo || exit 2; fi
git -C $X/repo checkout -q -- . ; git -C $X/repo fetch -q origin; git -C $X/repo reset -q --hard $(git -C /repo rev-parse HEAD)
rsync -a --delete --exclude .build --exclude replays --exclude .git /verif/ $X/verif/
if [ "$SEED" != "-" ]; then
  P="$SEED/patch.diff"; [ -f "$SEED/patch_current.diff" ] && P="$SEED/patch_current.diff"
  git -C $X/repo apply --whitespace=nowarn --exclude=qtlogger.h "$P" || { echo "patch does not apply"; exit 2; }
fi
cd $X/verif
for c in "$@"; do
  s=$(date +%s)
  VERIF_REPO=$X/repo VERIF_REPLAYS=$X/replays ./check $c $TIER > $X/out_$c.txt 2>&1; rc=$?
  echo "slot=$SLOT seed=$(basename $SEED) check=$c tier=$TIER rc=$rc violations=$(grep -c '^VIOLATION' $X/out_$c.txt) $(( $(date +%s)-s ))s"
  grep -m2 -E "^VIOLATION|TOOL-FAILURE" $X/out_$c.txt
done
git -C $X/repo checkout -q -- .
