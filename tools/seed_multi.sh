#!/bin/bash
# seed_multi.sh <seed-dir-name> <check-id>... : apply one seeded patch to /repo, run several checks in parallel, undo.
S=/verif/seeded/$1; shift
P="$S/patch.diff"; [ -f "$S/patch_current.diff" ] && P="$S/patch_current.diff"
git -C /repo apply --whitespace=nowarn --exclude=qtlogger.h "$P" || { echo "patch does not apply"; exit 2; }
cd /verif
for c in "$@"; do cp evidence/$c.json /tmp/evidence_$c.bak 2>/dev/null; done
# build the harness once first (the checks share build directories under a lock)
python3 -c "
from vlib import common as C
C.ensure_harness('asan', ['drv_sorted','drv_pipeline','drv_threads','drv_lifecycle','drv_pattern','drv_json','drv_config'])
C.ensure_harness('plain', ['drv_rotation','drv_fatal'])" >/dev/null 2>&1
for c in "$@"; do ( ./check $c quick > /tmp/multi_$c.out 2>&1; echo "seed=$(basename $S) check=$c rc=$? violations=$(grep -c '^VIOLATION' /tmp/multi_$c.out)" ) & done
wait
git -C /repo checkout -- .
for c in "$@"; do [ -f /tmp/evidence_$c.bak ] && cp /tmp/evidence_$c.bak evidence/$c.json; done
exit 0
