#!/bin/bash
# confirm_seed.sh <dir-with-patch.diff+demo> <label>
# Independently confirms a seeded change in a fresh scratch worktree of /repo (outside /repo and /verif):
#   pristine: demo passes;  patched: library builds, the repository's test suite passes, demo fails.
# Prints a summary line and leaves nothing behind.
set -u
SRC="$1"; LABEL="$2"
WT=/tmp/seedchk/wt_$LABEL
rm -rf "$WT" /tmp/seedchk/demo_$LABEL; mkdir -p /tmp/seedchk
git -C /repo worktree add --detach "$WT" HEAD >/dev/null 2>&1 || { echo "worktree failed"; exit 2; }
build_demo() { # $1 = tag
  rm -rf /tmp/seedchk/demo_$LABEL
  cmake -G Ninja -S "$SRC" -B /tmp/seedchk/demo_$LABEL -DTREE="$WT" >/dev/null 2>&1 && cmake --build /tmp/seedchk/demo_$LABEL -j8 >/tmp/seedchk/demo_$LABEL.$1.log 2>&1
}
run_demo() { local exe; exe=$(find /tmp/seedchk/demo_$LABEL -maxdepth 2 -type f -executable -name 'demo*' | head -1); ( cd /tmp/seedchk/demo_$LABEL && timeout 300 "$exe" >/tmp/seedchk/demo_$LABEL.out 2>&1 ); echo $?; }
build_demo pristine || { echo "RESULT $LABEL demo-build-failed-pristine"; tail -5 /tmp/seedchk/demo_$LABEL.pristine.log; }
RC_PRISTINE=$(run_demo)
if ! git -C "$WT" apply --whitespace=nowarn "$SRC/patch.diff" 2>/tmp/seedchk/apply_$LABEL.err; then
  # the regenerated single header may not apply on top of later fix commits: apply the sources, regenerate the header
  git -C "$WT" apply --whitespace=nowarn --exclude=qtlogger.h "$SRC/patch.diff" || { echo "RESULT $LABEL patch-does-not-apply"; cat /tmp/seedchk/apply_$LABEL.err; git -C /repo worktree remove --force "$WT"; exit 1; }
  (cd "$WT" && python3 tools/gen_qtlogger.h.py >/dev/null 2>&1)
fi
cmake -G Ninja -S "$WT" -B "$WT/_build" >/dev/null 2>&1
cmake --build "$WT/_build" -j8 -- -k 0 >/tmp/seedchk/build_$LABEL.log 2>&1
NFAIL=$(grep -c '^FAILED' /tmp/seedchk/build_$LABEL.log)
TESTS=$(ctest --test-dir "$WT/_build" -j8 --timeout 900 2>&1 | grep -E "tests passed|tests failed" | tail -1)
build_demo patched
RC_PATCHED=$(run_demo)
echo "RESULT $LABEL pristine_demo_rc=$RC_PRISTINE patched_demo_rc=$RC_PATCHED build_failed_targets=$NFAIL tests='$TESTS'"
git -C /repo worktree remove --force "$WT"; rm -rf /tmp/seedchk/demo_$LABEL
