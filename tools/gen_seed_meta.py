#!/usr/bin/env python3
"""Writes seeded/<id>/meta.json for every stored change: which property it breaks, what it needs in order to manifest,
what was run to confirm it and which check reports it (from the agent's own notes, seeded/regression.json and
seeded/round7.json, round9.json, round10.json)."""
import json
from pathlib import Path

S = Path(__file__).resolve().parents[1] / "seeded"
reg = json.loads((S / "regression.json").read_text()) if (S / "regression.json").exists() else {}
r7 = json.loads((S / "round7.json").read_text()) if (S / "round7.json").exists() else {}
for later in ("round9.json", "round10.json", "round11.json"):
    if (S / later).exists():
        r7.update(json.loads((S / later).read_text()))
for d in sorted(S.iterdir()):
    if not (d / "patch.diff").exists():
        continue
    am = json.loads((d / "agent_meta.json").read_text()) if (d / "agent_meta.json").exists() else {}
    old = json.loads((d / "meta.json").read_text()) if (d / "meta.json").exists() else {}
    benign = d.name.startswith("benign")
    m = dict(old)
    m.setdefault("property", am.get("property", None if benign else d.name[:3]))
    m["kind"] = "behaviour-preserving refactoring (must NOT be reported)" if benign else "seeded defect (must be reported)"
    m.setdefault("needs_to_manifest", am.get("needs_to_manifest", am.get("risky_corners", "")))
    m.setdefault("summary", am.get("summary", ""))
    ran = {"confirmation": "tools/confirm_seed.sh in a scratch worktree: the demonstration passes on the unchanged tree and fails with the "
                           "change; the library builds; the repository's 18 ctest targets (349 cases) pass with the change"
           if not benign else "library builds and the 18 ctest targets pass with the change (checked by the agent and by tools/regress.py runs)"}
    if d.name in r7:
        ran.update(r7[d.name])
    if d.name in reg:
        ran["regression"] = {"verdict": reg[d.name].get("verdict"),
                             "checks": {c: {"rc": v["rc"], "violations": v["violations"]} for c, v in reg[d.name].get("checks", {}).items()}}
    m["what_was_run"] = ran
    (d / "meta.json").write_text(json.dumps(m, indent=1, ensure_ascii=False) + "\n")
print("ok")
