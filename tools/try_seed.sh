#!/bin/bash
# try_seed.sh <seed-id-dir> <check-id> [tier]  : apply seeded patch to /repo (sources only), run check, undo.
# The evidence file of the check is put back afterwards (evidence must describe the unchanged tree).
S=/verif/seeded/$1; CHK=$2; TIER=${3:-quick}
cd /repo || exit 2
P="$S/patch.diff"; [ -f "$S/patch_current.diff" ] && P="$S/patch_current.diff"
git -C /repo apply --whitespace=nowarn --exclude=qtlogger.h "$P" || { echo "patch does not apply"; exit 2; }
cd /verif
cp evidence/$CHK.json /tmp/evidence_$CHK.bak 2>/dev/null
VERIF_REPLAYS=/tmp/replays_seed ./check $CHK $TIER > /tmp/try_$1_$CHK.out 2>&1; RC=$?
git -C /repo checkout -- .
[ -f /tmp/evidence_$CHK.bak ] && cp /tmp/evidence_$CHK.bak evidence/$CHK.json
echo "seed=$1 check=$CHK tier=$TIER rc=$RC violations=$(grep -c '^VIOLATION' /tmp/try_$1_$CHK.out)"; grep -m2 -E "VIOLATION|TOOL-FAILURE" /tmp/try_$1_$CHK.out
exit 0
