#!/usr/bin/env python3
"""Writes the exhaustive TLC configurations of MC_Rotation, one per property and tier (spec/MC_Rot_<id>_<tier>.cfg)
and the witness configuration.  The bounds are chosen so that each run finishes in the tier's time budget while the
dimension the property talks about is the large one."""
import os

SPEC = os.path.join(os.path.dirname(os.path.dirname(os.path.abspath(__file__))), "spec")

INVS = ["TypeOK", "ReadBackIsHistory", "CountBound", "SurvivorsAreRecentSuffix", "NoRetentionWhenUnlimited",
        "NoRotationWhenOne", "ForeignUntouched", "SizeBound", "GzFaithful", "DaysApart", "NameCarriesDay",
        "FlushedRecoverable", "NoDuplicates", "FatalDurableInv"]
PROPS = ["OrigRemovedOnlyAfterGzClosed", "NamesNeverReused"]

BASE = dict(BufCap=3, Ls="{0, 3}", Ns="{0, 2}", Opts="{0, 1, 2, 4, 7}", Sizes="{1, 2, 4}", MaxSends=4, MaxDay=1,
            MaxRestarts=1, MaxCrash=0, MaxFault=0, MaxGzWrites=1, Ticks="FALSE", Fatal="FALSE", FlushOnFatal="TRUE",
            ZoneBack="FALSE", ZoneTies="FALSE")

CFGS = {
    # history: all trigger kinds, sizes below / at / above the limit and above the buffer, restarts, two days
    ("C05", "quick"): dict(Ns="{0, 2, 3}"),
    ("C05", "thorough"): dict(Ns="{0, 2, 3}", Opts="{0, 1, 2, 3, 4, 5, 6, 7}", MaxSends=5),
    # retention: every send rotates (2 + 2 > 3), ticks on so that equal and different mtimes both occur
    ("C06", "quick"): dict(Ls="{3}", Ns="{0, 1, 2, 3}", Opts="{0, 4}", Sizes="{2}", MaxSends=6, MaxDay=0, Ticks="TRUE"),
    ("C06", "thorough"): dict(Ls="{3}", Ns="{99, 0, 1, 2, 3, 4}", Opts="{0, 1, 4}", Sizes="{2}", MaxSends=7, MaxDay=1, Ticks="TRUE"),
    # size: all sizes around three limits
    # the local date goes back once (another time zone) while time goes on: retention, names, read-back, days
    ("C06", "zone"): dict(Ls="{3}", Ns="{0, 2, 3}", Opts="{0, 2, 4}", Sizes="{2}", MaxSends=4, MaxDay=1, Ticks="TRUE", ZoneBack="TRUE"),
    ("C09", "zone"): dict(Ls="{0, 3}", Ns="{0, 2}", Opts="{2, 6}", Sizes="{2}", MaxSends=4, MaxDay=1, MaxRestarts=0, ZoneBack="TRUE"),
    ("C06", "zone_thorough"): dict(Ls="{3}", Ns="{0, 2, 3}", Opts="{0, 2, 4}", Sizes="{2}", MaxSends=5, MaxDay=1, Ticks="TRUE", ZoneBack="TRUE"),
    ("C09", "zone_thorough"): dict(Ls="{0, 3}", Ns="{0, 2}", Opts="{2, 3, 6}", Sizes="{1, 2}", MaxSends=4, MaxDay=2, MaxRestarts=1, ZoneBack="TRUE"),
    ("C07", "quick"): dict(Ls="{2, 3, 5}", Ns="{0, 2}", Opts="{0, 1, 2}", Sizes="{1, 2, 3, 4}", MaxSends=4, MaxDay=1),
    ("C07", "thorough"): dict(Ls="{2, 3, 5}", Ns="{0, 2, 1}", Opts="{0, 1, 2, 3, 4}", Sizes="{1, 2, 3, 4, 6}", MaxSends=5, MaxDay=1),
    # compression: multi-write bodies, a crash anywhere
    ("C08", "quick"): dict(Ls="{3}", Ns="{0, 2}", Opts="{4, 5, 7}", Sizes="{1, 2}", MaxSends=4, MaxCrash=1, MaxGzWrites=2),
    ("C08", "thorough"): dict(Ls="{0, 3}", Ns="{0, 2, 3}", Opts="{4, 5, 6, 7}", Sizes="{1, 2, 4}", MaxSends=4, MaxCrash=1, MaxFault=1, MaxGzWrites=2),
    # days and names: three days, two restarts
    ("C09", "quick"): dict(Ls="{0, 3}", Ns="{0, 1, 2}", Opts="{2, 3, 6}", Sizes="{1, 2}", MaxSends=4, MaxDay=2, MaxRestarts=2),
    ("C09", "thorough"): dict(Ls="{0, 3}", Ns="{0, 1, 2, 3}", Opts="{2, 3, 6, 7}", Sizes="{1, 2}", MaxSends=5, MaxDay=2, MaxRestarts=1, Ticks="TRUE"),
    # crash at every step and one fault
    # fatal message: any history, then the fatal one, flush, abort
    ("C11", "quick"): dict(Ls="{0, 3}", Ns="{0, 1, 2}", Opts="{0, 1, 4}", Sizes="{1, 2, 4}", MaxSends=3, Fatal="TRUE"),
    ("C11", "thorough"): dict(Ls="{0, 3}", Ns="{0, 1, 2, 3}", Opts="{0, 1, 2, 4, 7}", Sizes="{1, 2, 4}", MaxSends=4, Fatal="TRUE"),
    ("C10", "quick"): dict(Ls="{3}", Ns="{0, 2, 3}", Opts="{0, 4, 7}", Sizes="{1, 2}", MaxSends=3, MaxCrash=1, MaxFault=1),
    ("C10", "thorough"): dict(Ls="{0, 3}", Ns="{0, 2, 3}", Opts="{0, 1, 2, 4, 7}", Sizes="{1, 2, 4}", MaxSends=4, MaxCrash=1, MaxFault=1, MaxGzWrites=2),
}


def body(c, invs, props):
    lines = ["SPECIFICATION MCSpec", "CONSTANTS"]
    for k, v in c.items():
        lines.append(f"    {k} = {v}")
    lines += [f"INVARIANT {i}" for i in invs]
    lines += [f"PROPERTY {p}" for p in props]
    lines.append("CHECK_DEADLOCK FALSE")
    return "\n".join(lines) + "\n"


def main():
    for (pid, tier), over in CFGS.items():
        c = dict(BASE)
        c.update(over)
        open(os.path.join(SPEC, f"MC_Rot_{pid}_{tier}.cfg"), "w").write(body(c, INVS, PROPS))
    # witnesses: a configuration in which everything the properties talk about must be reachable
    c = dict(BASE)
    c.update(dict(Ls="{3}", Ns="{2}", Opts="{6}", Sizes="{2, 4}", MaxSends=4, MaxCrash=1, MaxFault=1, MaxGzWrites=2))
    for w in ["W_NeverRotates", "W_NeverRetires", "W_NeverCompresses", "W_NeverLeftover", "W_NeverFaulted",
              "W_NeverTwoDays", "W_NeverDirectWrite"]:
        open(os.path.join(SPEC, f"MC_Rot_{w}.cfg"), "w").write(body(c, [w], []))
    c = dict(BASE)
    c.update(dict(Ls="{3}", Ns="{2}", Opts="{2}", Sizes="{2}", MaxSends=4, MaxDay=1, ZoneBack="TRUE"))
    open(os.path.join(SPEC, "MC_Rot_W_ZoneTie.cfg"), "w").write(body(dict(c, ZoneTies="TRUE", Ns="{2}", Opts="{0}"), ["SurvivorsAreRecentSuffix"], []))
    for w in ["W_NeverZonedRotation"]:
        open(os.path.join(SPEC, f"MC_Rot_{w}.cfg"), "w").write(body(c, [w], []))
    c = dict(BASE)
    c.update(dict(Ls="{0}", Ns="{0}", Opts="{0}", Sizes="{1}", MaxSends=1, Fatal="TRUE", FlushOnFatal="FALSE"))
    open(os.path.join(SPEC, "MC_Rot_W_FatalNoFlush.cfg"), "w").write(body(c, ["FatalDurableInv"], []))


if __name__ == "__main__":
    main()
