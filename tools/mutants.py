#!/usr/bin/env python3
"""Hand-written source mutants (one small edit each) used to measure the sensitivity of the quick checks beyond the
agent-written seeded changes.  Unlike those, these are not guaranteed to pass the repository's test suite; they are
the classic operator / boundary / omitted-step mutations at the places the properties are anchored in.

  tools/mutants.py list
  tools/mutants.py run [id ...]      apply each mutant to /repo (sources only), run its checks (quick), undo

Evidence files are restored afterwards.  Results go to seeded/mutants/results.json.  The mutant is applied to the
working tree named by VERIF_REPO (default /repo): either run nothing else meanwhile, or work on scratch copies
(rsync /verif and git clone /repo to a directory outside both, set VERIF_REPO, run the copy's tools/mutants.py)."""
import json
import shutil
import subprocess
import sys
from pathlib import Path

import os
REPO = Path(os.environ.get("VERIF_REPO", "/repo"))             # a scratch clone may be given (then /repo stays untouched)
VERIF = Path(__file__).resolve().parents[1]
SRC = REPO / "src" / "qtlogger"

M = []


def mut(mid, file, old, new, checks, note="", beyond=False):
    M.append({"id": mid, "file": file, "old": old, "new": new, "checks": checks, "note": note, "beyond": beyond})


R = "sinks/rotatingfilesink.cpp"
mut("rot-retention-off-by-one", R, "while (rotatedFiles.size() > m_maxFileCount - 1) {", "while (rotatedFiles.size() > m_maxFileCount) {", ["C06"])
mut("rot-size-ge", R, "(currentSize + additionalSize) > m_maxFileSize", "(currentSize + additionalSize) >= m_maxFileSize", ["C07", "C05"],
    "rotates one record early: the limit itself is never reached (the statement allows files up to L)")
mut("rot-size-no-newline", R, ".toUtf8().size() + 1; // +1 for newline", ".toUtf8().size(); // +1 for newline", ["C07"])
mut("rot-size-utf16", R, "lmsg.formattedMessage().toUtf8().size() + 1", "lmsg.formattedMessage().size() + 1", ["C07"],
    "counts UTF-16 units instead of bytes (multi-byte text)")
mut("rot-startup-empty", R, "        if (q_ptr->file()->size() > 0) {\n            rotate();\n        }\n    }\n\n    void checkDailyRotation",
    "        rotate();\n    }\n\n    void checkDailyRotation", ["C05", "C09"], "start-up rotation of an empty file")
mut("rot-daily-empty", R, "if (messageDate != m_currentLogDate && q_ptr->file()->size() > 0) {", "if (messageDate != m_currentLogDate) {", ["C09", "C05"])
mut("rot-daily-date-kept", R, "            rotate();\n            m_currentLogDate = messageDate;", "            rotate();", ["C09"],
    "after a daily rotation the log date is today's wall-clock date, not the message's")
mut("rot-keep-original", R, "        outputFile.close();\n        QFile::remove(filePath);", "        outputFile.close();", ["C08", "C05"],
    "the uncompressed rotated file stays next to its .gz")
mut("rot-gz-isize-plus", R, "auto fileSize = static_cast<quint32>(inputFile.size());", "auto fileSize = static_cast<quint32>(inputFile.size() + 1);", ["C08"])
mut("rot-gz-level0", R, "qCompress(rawData, 5)", "qCompress(rawData, 0)", ["C08"], "benign: stored blocks are valid gzip")
mut("rot-no-retention-after-failed-rename", R, "        removeOldFiles();\n\n        if (!q_ptr->file()->open", "        if (!q_ptr->file()->open", ["C06"])
mut("rot-index-from-one", R, "return maxIndex + 1;", "return maxIndex > 0 ? maxIndex : 1;", ["C09", "C05"])
mut("rot-date-today", R, "const auto rotationDate = m_currentLogDate.isValid() ? m_currentLogDate : QDate::currentDate();",
    "const auto rotationDate = QDate::currentDate();", ["C09"])
mut("rot-sort-newest-first", R, "                return a.modified < b.modified;", "                return a.modified > b.modified;", ["C06"])
mut("rot-maxcount1-rotates", R, "        if (m_maxFileCount == 1)\n            return;\n\n        q_ptr->file()->close();", "        q_ptr->file()->close();", ["C06", "C05"])
mut("file-flush-noop", "sinks/filesink.cpp", "    return file()->flush();", "    return true;", ["C11"])
# the modules beyond the listed properties (QtlLineSinks, QtlEnv): a deviation is a NOTE line of C01 that says "rejected"
B = "beyond the list: counted as caught when C01 prints a NOTE line saying that the specification rejected histories"
mut("syslog-warning-as-err", "sinks/syslogsink.cpp", "priority = LOG_WARNING;", "priority = LOG_ERR;", ["C01"], B, beyond=True)
mut("syslog-formatted-text", "sinks/syslogsink.cpp", "formattedMessage = lmsg.message();\n    } else", "formattedMessage = lmsg.formattedMessage();\n    } else", ["C01"], B, beyond=True)
mut("uuid-not-stored", "attrhandlers/appuuidattr.cpp", "        settings.setValue(QStringLiteral(\"app_uuid\"), uuid);\n", "", ["C01"], B, beyond=True)
mut("uuid-with-braces", "attrhandlers/appuuidattr.cpp", "uuid = QUuid::createUuid().toString(QUuid::WithoutBraces);", "uuid = QUuid::createUuid().toString();", ["C01"], B, beyond=True)
mut("appinfo-live-name", "attrhandlers/appinfoattrs.cpp", "    Q_UNUSED(lmsg)\n    return m_attrs;", "    Q_UNUSED(lmsg)\n    auto a = m_attrs;\n    a[QStringLiteral(\"appname\")] = QCoreApplication::applicationName();\n    return a;", ["C01"], B, beyond=True)
mut("iodev-raw-message", "sinks/iodevicesink.cpp", "    m_device->write(lmsg.formattedMessage().toLocal8Bit().append(\"\\n\"));", "    m_device->write(lmsg.message().toLocal8Bit().append(\"\\n\"));", ["C01"],
    "IODeviceSink writes the raw message instead of the formatted text; " + B, beyond=True)
mut("iodev-utf8-latin1", "sinks/iodevicesink.cpp", "lmsg.formattedMessage().toLocal8Bit().append(\"\\n\")", "lmsg.formattedMessage().toLatin1().append(\"\\n\")", ["C05", "C19"])
mut("json-compact-swapped", "formatters/jsonformatter.cpp", "m_compact ? QJsonDocument::Compact\n                                                                 : QJsonDocument::Indented",
    "m_compact ? QJsonDocument::Indented\n                                                                 : QJsonDocument::Compact", ["C13"])
mut("dup-formatted", "filters/duplicatefilter.cpp", "if (lmsg.message() == m_lastMessage) {", "if (lmsg.formattedMessage() == m_lastMessage) {", ["C16"])
mut("dup-no-update", "filters/duplicatefilter.cpp", "    m_lastMessage = lmsg.message();\n\n    return true;", "    if (m_lastMessage.isNull())\n        m_lastMessage = lmsg.message();\n\n    return true;", ["C16"])
mut("level-gt", "filters/levelfilter.h", "return priority(lmsg.type()) >= priority(m_minLevel);", "return priority(lmsg.type()) > priority(m_minLevel);", ["C16"])
mut("seq-preincrement", "attrhandlers/seqnumberattr.cpp", "return { { m_name, m_count++ } };", "return { { m_name, ++m_count } };", ["C16", "C02"])
mut("cat-first-match", "filters/categoryfilter.cpp", "            enabled = rule->enabled;\n        }", "            enabled = rule->enabled;\n            break;\n        }", ["C15"])
mut("cat-type-ignored", "filters/categoryfilter.cpp", "&& (!typeMatch || type == messageType);", "&& (!typeMatch || type <= messageType);", ["C15"])
mut("cat-default-off", "filters/categoryfilter.cpp", "    bool enabled = true;\n    for (const auto &rule", "    bool enabled = m_rules.isEmpty();\n    for (const auto &rule", ["C15"])
mut("sorted-clear-next", "sortedpipeline.cpp", "        if (iter.next()->type() == type) {\n            iter.remove();", "        if (iter.next()->type() == type) {\n            iter.remove();\n            break;", ["C17"])
mut("sorted-sink-after-pipeline", "sortedpipeline.cpp",
    "    insertBetweenNearLeft({ HandlerType::AttrHandler, HandlerType::Filter, HandlerType::Formatter,\n                            HandlerType::Sink },\n                          { HandlerType::Pipeline }, sink);",
    "    append(sink);", ["C17"])
mut("sentry-level-warning", "formatters/sentryformatter.cpp", "        return QStringLiteral(\"warning\");", "        return QStringLiteral(\"warn\");", ["C18"])
mut("pipeline-scoped-attrs", "pipeline.cpp", "        lmsg.setFormattedMessage(fmsg);\n        lmsg.setAttributes(attrs);", "        lmsg.setFormattedMessage(fmsg);", ["C01"])
mut("pipeline-skip-after-null", "pipeline.cpp", "        if (!handler)\n            continue;", "        if (!handler)\n            break;", ["C01"])
mut("oth-no-wait", "ownthreadhandler.h", "        while (m_pendingCount.loadAcquire() > 0) {", "        while (false && m_pendingCount.loadAcquire() > 0) {", ["C04"])
mut("oth-sync-unlocked", "ownthreadhandler.h", "        } else {\n            QTLOGGER_VERIF_POINT(\"oth.sync.begin\", this, 0, 0);", "        } else {\n            locker.unlock();\n            QTLOGGER_VERIF_POINT(\"oth.sync.begin\", this, 0, 0);", ["C02"])
mut("logger-restore-keeps", "logger.cpp", None, None, ["C19"], "filled in below")
mut("cfg-daily-ignored", "configure.cpp", "settings.value(group + QStringLiteral(\"/rotate_daily\"), false).toBool();", "false;", ["C19"])
mut("cfg-startup-default", "configure.cpp", "settings.value(group + QStringLiteral(\"/rotate_on_startup\"), true).toBool();",
    "settings.value(group + QStringLiteral(\"/rotate_on_startup\"), false).toBool();", ["C19"])
mut("cfg-rules-after-regexp", "configure.cpp", None, None, ["C19"], "filled in below")
mut("utils-restore-noop", "utils.cpp", "    return setMessagePattern(prevMessagePattern());", "    return prevMessagePattern();", ["C19"], "beyond the list: NOTE expected, not a violation")

# ---- batch 2: formatters, JSON / Sentry, configure, pipelines, logger
PF = "formatters/patternformatter.cpp"
mut("pat-center-extra-left", PF, "int leftPad = padding / 2;", "int leftPad = (padding + 1) / 2;", ["C12"])
mut("pat-trunconly-right-keeps-left", PF, "            if (m_spec.align == Alignment::Right) {\n                return value.right(m_spec.width);",
    "            if (m_spec.align == Alignment::Center) {\n                return value.right(m_spec.width);", ["C12"])
mut("pat-trunc-always-pads", PF, "hasExplicitFill ? TruncateMode::Truncate : TruncateMode::TruncateOnly;", "TruncateMode::Truncate;", ["C12"])
mut("pat-remove-before-short", PF, "if (m_removeBefore > 0 && dest.size() >= m_removeBefore) {", "if (m_removeBefore > 0 && dest.size() > m_removeBefore) {", ["C12"])
mut("pat-pending-not-added", PF, "        pendingRemoval += m_removeAfter;", "        pendingRemoval = m_removeAfter;", ["C12"],
    "two absent optional attributes in a row: the removal counts add up")
mut("pat-pending-kept-after-value", PF, "            if (dest.size() != sizeBefore) {\n                pendingRemoval = 0;\n            }", "", ["C12"])
mut("pat-shortfile-first-slash", PF, "int lastSlash = file.lastIndexOf(QLatin1Char('/'));", "int lastSlash = file.indexOf(QLatin1Char('/'));", ["C12"])
mut("pat-shortfile-keep-slash", PF, "                    result = result.mid(1);", "                    result = result.mid(0);", ["C12"])
mut("pat-width-zero-ok", PF, "        if (!ok || spec.width <= 0)\n            return std::nullopt;", "        if (!ok || spec.width < 0)\n            return std::nullopt;", ["C12"])
mut("json-skip-empty-message", "logmessage.h", None, None, ["C13"], "filled in below")
mut("sentry-level-info-as-debug", "formatters/sentryformatter.cpp", None, None, ["C18"], "filled in below")
mut("cfg-oneline-no-strip", "configure.cpp", "            fmsg.remove(ansiEscape);\n", "", ["C19"])
mut("cfg-oneline-plain-always", "configure.cpp", "        if (maxFileSize > 0 || options.testFlag(RotatingFileSink::RotationOnStartup)", "        if (maxFileSize < 0 || options.testFlag(RotatingFileSink::RotationOnStartup)", ["C19", "C11"])
mut("cfg-ini-stderr-or", "configure.cpp", None, None, ["C19"], "filled in below")
mut("cfg-ini-compress-ignored", "configure.cpp", "        if (compress)\n            options |= RotatingFileSink::Option::Compression;", "", ["C19"])
mut("cfg-ini-count-as-size", "configure.cpp", "*pipeline << RotatingFileSinkPtr::create(path, maxFileSize, maxFileCount, options);\n    }\n\n#ifdef QTLOGGER_NETWORK",
    "*pipeline << RotatingFileSinkPtr::create(path, maxFileCount, maxFileSize, options);\n    }\n\n#ifdef QTLOGGER_NETWORK", ["C19"])
mut("sp-end-self", "simplepipeline.cpp", None, None, ["C01"], "filled in below")
mut("sp-flush-first-only", "simplepipeline.cpp", None, None, ["C01", "C11"], "filled in below")
mut("logger-fatal-flush-async-too", "logger.cpp", "        if (!ownThreadIsRunning())\n#endif\n            flush();", "#endif\n            flush();", ["C03", "C04"],
    "flushes from the producer thread while the worker may be inside the sinks")
mut("logger-no-lock", "logger.cpp", "    QMutexLocker locker(mutex());\n#endif\n    QTLOGGER_VERIF_POINT(\"pm.locked\"", "#endif\n    QTLOGGER_VERIF_POINT(\"pm.locked\"", ["C02"])
mut("lm-copy-no-attrs", "logmessage.h", None, None, ["C03"], "filled in below")
mut("oth-worker-dec-first", "ownthreadhandler.h", None, None, ["C04"], "filled in below")
mut("pretty-thread-index", "formatters/prettyformatter.cpp", None, None, ["C19"], "beyond the list (NOTE)")


def fill_dynamic():
    # mutants whose text is easier to take from the file
    lg = (SRC / "logger.cpp").read_text()
    i = lg.index("void Logger::restorePreviousMessageHandler")
    body = lg[i:lg.index("\n}\n", i)]
    for m in M:
        if m["id"] == "logger-restore-keeps":
            line = [l for l in body.splitlines() if "g_previousMessageHandler = nullptr" in l]
            if line:
                m["old"], m["new"] = line[0], "    // " + line[0].strip()
    def setm(mid, old, new):
        for m in M:
            if m["id"] == mid:
                m["old"], m["new"] = old, new
    sp = (SRC / "simplepipeline.cpp").read_text()
    i = sp.index("SimplePipeline &SimplePipeline::end()")
    body = sp[i:sp.index("\n}\n", i)]
    ret = [l for l in body.splitlines() if "return *m_parent" in l]
    if ret:
        setm("sp-end-self", ret[0], ret[0].replace("*m_parent", "*this"))
    i = sp.index("void SimplePipeline::recursiveFlush")
    body = sp[i:sp.index("\n}\n", i)]
    fl = [l for l in body.splitlines() if "->flush()" in l]
    if fl:
        setm("sp-flush-first-only", fl[0], fl[0] + "\n            return;")
    cf = (SRC / "configure.cpp").read_text()
    if "if (stderr || stderrColor) {" in cf:
        setm("cfg-ini-stderr-or", "if (stderr || stderrColor) {", "if (stderr && stderrColor) {")
    se = (SRC / "formatters" / "sentryformatter.cpp").read_text()
    if 'return QStringLiteral("info");' in se:
        setm("sentry-level-info-as-debug", 'return QStringLiteral("info");', 'return QStringLiteral("debug");')
    oth = (SRC / "ownthreadhandler.h").read_text()
    a = "                    m_handler->BaseHandler::process(logEvent->lmsg);\n"
    if a in oth:
        pass
    M[:] = [m for m in M if m["old"] is not None]


def apply(m):
    p = SRC / m["file"]
    s = p.read_text()
    if s.count(m["old"]) != 1:
        return False
    p.write_text(s.replace(m["old"], m["new"]))
    return True


def run_checks(m):
    res = {}
    for c in m["checks"]:
        ev = VERIF / "evidence" / f"{c}.json"
        bak = Path(f"/tmp/evidence_{c}.mut")
        if ev.exists():
            shutil.copy(ev, bak)
        p = subprocess.run(["./check", c, "quick"], cwd=VERIF, capture_output=True, text=True,
                           env=dict(os.environ, VERIF_REPLAYS="/tmp/replays_mut", VERIF_REPO=str(REPO)))
        out = p.stdout + p.stderr
        res[c] = {"rc": p.returncode, "violations": out.count("\nVIOLATION") + (1 if out.startswith("VIOLATION") else 0),
                  "notes": sum(1 for l in out.splitlines() if l.startswith("NOTE")),
                  # NOTE lines of the modules beyond the listed properties that say "the specification rejected ... histories"
                  "notes_rejecting": sum(1 for l in out.splitlines() if l.startswith("NOTE") and ("rejected" in l or "not explained" in l)),
                  "tool_failure": "TOOL-FAILURE" in out or p.returncode not in (0, 1),
                  "tail": out[-300:] if p.returncode not in (0, 1) else ""}
        if bak.exists():
            shutil.copy(bak, ev)
    return res


def main():
    fill_dynamic()
    if len(sys.argv) < 2 or sys.argv[1] == "list":
        for m in M:
            print(f"{m['id']:40s} {m['file']:38s} {' '.join(m['checks'])}  {m['note']}")
        return 0
    want = set(sys.argv[2:])
    outp = VERIF / "seeded" / "mutants" / "results.json"
    outp.parent.mkdir(parents=True, exist_ok=True)
    results = json.loads(outp.read_text()) if outp.exists() else {}
    st = subprocess.run(["git", "-C", str(REPO), "status", "--porcelain", "--untracked-files=no"], capture_output=True, text=True).stdout
    if st.strip():
        print("/repo is not clean:", st)
        return 2
    for m in M:
        if want and m["id"] not in want:
            continue
        if not apply(m):
            print(f"{m['id']}: does not apply")
            results[m["id"]] = {"applies": False}
            continue
        try:
            r = run_checks(m)
        finally:
            subprocess.run(["git", "-C", str(REPO), "checkout", "--", "."], check=True)
        caught = [c for c, v in r.items() if v["violations"] > 0 or (m.get("beyond") and v.get("notes_rejecting", 0) > 0)]
        print(f"{m['id']:40s} caught_by={caught or '-'} " + " ".join(f"{c}:rc={v['rc']},viol={v['violations']},notes={v['notes']}" for c, v in r.items()), flush=True)
        results[m["id"]] = {"file": m["file"], "note": m["note"], "checks": r, "caught_by": caught}
        outp.write_text(json.dumps(results, indent=1))
    return 0


if __name__ == "__main__":
    sys.exit(main())
