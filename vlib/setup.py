"""MANIFEST.setup_cmd: build every harness flavour once so that the checks only rebuild what changed."""
import sys

from . import common as C

TARGETS = {
    "asan": ["drv_sorted", "drv_pipeline", "drv_threads", "drv_lifecycle", "drv_pattern", "drv_json", "drv_config", "drv_signal"],
    "plain": ["drv_rotation", "drv_fatal"],
    "net": ["drv_http"],
    "nothread": ["drv_fatal"],
}


def run():
    try:
        for flavour, targets in TARGETS.items():
            C.ensure_harness(flavour, targets)
            C.log(f"harness flavour {flavour}: built {targets}")
        r = C.run_tlc("MC_Sorted", "MC_Sorted.cfg", timeout=300)
        if not r.ok:
            raise C.ToolFailure("TLC smoke run failed:\n" + r.out[-2000:])
        C.log("TLC smoke run ok")
    except C.ToolFailure as e:
        print("SETUP FAILED:", e, file=sys.stderr)
        return 2
    return 0
