"""PrettyFormatter conformance (spec/QtlPretty.tla): streams of messages created on several threads, formatted by one
real PrettyFormatter(false, maxCategoryWidth); TLC replays them through the automaton (thread indices, category column)."""
import json
import subprocess

from . import common as C

CATS = ["default", "default", "net", "app.ui", "a", "storage.cache.l2", "x" * 30, "сеть", "", "q[1]"]
TYPES = ["debug", "info", "warning", "critical", "fatal"]


def u(s):
    return [ord(c) for c in s]


def gen_run(rnd):
    k = rnd.choice([1, 1, 2, 3, 4, 12])
    n = rnd.randint(3, 30)
    msgs = [{"type": rnd.choice(TYPES), "cat": u(rnd.choice(CATS)), "text": u(rnd.choice(["hello", "", "a b  c", "[x] y", "T1 fake"])),
             "thr": rnd.randrange(k)} for _ in range(n)]
    return {"maxw": rnd.choice([0, 0, 8, 15, 15, 20]), "nthreads": k, "msgs": msgs}


def campaign(bdir, rnd, nruns, work):
    work.mkdir(parents=True, exist_ok=True)
    runs = [gen_run(rnd) for _ in range(nruns)]
    inp = work / "pretty.in"
    inp.write_text("".join(json.dumps(r) + "\n" for r in runs))
    p = subprocess.run([str(bdir / "drv_pattern"), "pretty", str(inp)], capture_output=True, text=True, timeout=600,
                       env={"LC_ALL": "C.UTF-8", "TZ": "UTC", "PATH": "/usr/bin:/bin", "ASAN_OPTIONS": "detect_leaks=0"})
    inp.unlink()
    if p.returncode != 0:
        raise C.ToolFailure("drv_pattern pretty failed: " + p.stderr[-1500:])
    out = [json.loads(l) for l in p.stdout.splitlines() if l.strip()]
    trace_runs = []
    ri = -1
    for e in out:
        if e["e"] == "Reset":
            ri += 1
            trace_runs.append([{"e": "Reset", "maxw": e["maxw"]}])
        else:
            m = runs[ri]["msgs"][e["i"]]
            trace_runs[-1].append({"e": "Line", "line": e["line"],
                                   "m": {"ts": e["ts"], "type": m["type"], "tid": e["tid"], "cat": m["cat"], "text": m["text"]}})
    accepted, failures = C.validate_runs("Trace_Pretty", "Trace_Pretty.cfg", trace_runs, work, "pretty", chunk=200)
    lines = sum(len(r) - 1 for r in trace_runs)
    multi = sum(1 for r in runs if r["nthreads"] > 1)
    return accepted, failures, {"runs": len(runs), "lines": lines, "runs_with_several_threads": multi}
