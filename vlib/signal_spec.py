"""SignalSink conformance (spec/QtlSignal.tla, beyond the listed properties): messages logged by the main thread and
by a producer thread go through [probe, SignalSink] of a synchronous or asynchronous logger; the receiver lives in the
main thread.  TLC replays the Emit / Slot events through QtlSignal (direct call inside emit on the receiver's own
thread, posted call otherwise) with SlotThread, Conservation and PerThreadOrder on - the slot's record must equal the
emitted one field by field."""
import json
import subprocess

from . import common as C

FILES = ["src/widgets/logview.cpp", "/abs/path/ünicöde.cpp", "a.cpp", ""]
FUNCS = ["void LogView::append(const QString&)", "int main(int, char**)", ""]
CATS = ["default", "ui.log", "net", "кат"]
TYPES = ["debug", "info", "warning", "critical"]


def u(s):
    return [ord(c) for c in s]


def gen_scenario(rnd, sid):
    n = rnd.randint(1, 14)
    msgs = []
    for k in range(1, n + 1):
        body = rnd.choice(["started", "value=42", "grüße", "line1\nline2", "", "x" * rnd.randint(1, 300)])
        msgs.append({"by": rnd.choice(["M", "P"]), "id": k, "type": rnd.choice(TYPES), "text": u(f"m{k}:{body}"),
                     "file": u(rnd.choice(FILES)), "func": u(rnd.choice(FUNCS)), "cat": u(rnd.choice(CATS)),
                     "line": rnd.choice([0, 1, 77, 12345])})
    return {"id": sid, "async": rnd.random() < 0.5, "fluent": rnd.random() < 0.5, "msgs": msgs}


def campaign(bdir, rnd, n, work):
    work.mkdir(parents=True, exist_ok=True)
    scns = [gen_scenario(rnd, i + 1) for i in range(n)]
    inp = work / "signal.ndjson"
    inp.write_text("".join(json.dumps(s) + "\n" for s in scns))
    p = subprocess.run([str(bdir / "drv_signal"), str(inp)], capture_output=True, text=True, timeout=600,
                       env={"LC_ALL": "C.UTF-8", "PATH": "/usr/bin:/bin", "ASAN_OPTIONS": "detect_leaks=0"})
    inp.unlink()
    if p.returncode != 0:
        raise C.ToolFailure(f"drv_signal exited {p.returncode}: {p.stderr[-1500:]}")
    runs, cur = [], None
    for line in p.stdout.splitlines():
        try:
            e = json.loads(line)
        except ValueError:
            continue
        if e["e"] == "Reset":
            cur = [e]
            runs.append(cur)
        elif cur is not None:
            cur.append(e)
    info = {"runs": len(runs), "emits": 0, "direct_slots": 0, "queued_slots": 0, "async_runs": sum(1 for s in scns if s["async"])}
    for r in runs:
        src = {}
        last_emit = None
        for e in r:
            if e["e"] == "Emit":
                e["m"]["src"] = e["t"]
                src[e["m"]["id"]] = e["t"]
                info["emits"] += 1
                last_emit = e
            elif e["e"] == "Slot":
                # the slot does not know who emitted: joined by the message id (used for per-thread order only)
                e["m"]["src"] = src.get(e["m"]["id"], "?")
                if e["m"]["src"] == e["t"]:
                    info["direct_slots"] += 1
                else:
                    info["queued_slots"] += 1
    accepted, failures = C.validate_runs("Trace_Signal", "Trace_Signal.cfg", runs, work, "sig", chunk=60, timeout=900)
    return accepted, failures, info
