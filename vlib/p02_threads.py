"""C02 C03 C04 - the concurrent core (spec/QtlThreads.tla).

TLC exhausts the per-property configurations of MC_Threads (and shows with deliberately broken / unrepaired
variants that the properties are not vacuous); the real Logger / OwnThreadHandler is bound to the module by
trace validation of recorded executions: producers' call begin/end, the QTLOGGER_VERIF points with the scalars
they carry, and what probe handlers inside the pipeline see.  Lifecycle paths that need their own process
(application quit, logger destroyed at exit, no application object) run in child processes (drv_lifecycle)."""
import json
import re
import os
import random
import subprocess
import time
from pathlib import Path

from . import common as C

PRODUCERS = ["p%d" % i for i in range(1, 49)]


# ------------------------------------------------------------------------------------------------
# scenarios
# ------------------------------------------------------------------------------------------------

def scn_sync(rnd, sid):
    n = rnd.choice([2, 2, 3, 4, 4, 8, 16, 16, 48])
    msgs = max(2, min(40, 400 // n))
    return {"id": sid, "mode": rnd.choice(["logger", "logger", "bare"]), "producers": n, "msgs": rnd.randint(2, msgs),
            "jitter": rnd.choice([0, 10, 30, 60]), "seed": rnd.randrange(1 << 30), "sinkDelayUs": rnd.choice([0, 0, 50, 300]),
            "pre": [], "script": [], "script2": [], "heapctx": rnd.random() < 0.5, "kind": "sync",
            # some messages are fatal ones (handed to the installed handler the way Qt does it, without Qt's abort()):
            # the logger then flushes its sinks inside the same critical section
            "fatalEvery": rnd.choice([0, 2, 3, 5]),
            # every other scenario: the producers' first calls - the first messages this logger object ever sees - are made
            # at the same instant (a spin barrier right before the call), not one thread start after the other
            "startTogether": n <= 16 and sid % 2 == 0}


def scn_async(rnd, sid):
    n = rnd.choice([1, 2, 2, 3, 4, 8, 16])
    gated = rnd.random() < 0.35
    s = {"id": sid, "mode": rnd.choice(["logger", "logger", "bare"]), "producers": n,
         "msgs": rnd.randint(2, max(2, min(25, 200 // n))),
         "jitter": rnd.choice([0, 10, 30, 60]), "seed": rnd.randrange(1 << 30), "sinkDelayUs": rnd.choice([0, 0, 100, 500]),
         "pre": rnd.choice([["move"], ["move", "install"]]), "script": [], "script2": [], "heapctx": rnd.random() < 0.7,
         "gate": gated, "kind": "async", "fatalEvery": rnd.choice([0, 0, 3, 4])}
    if gated:
        s["script"] = ["waitProducers", "openGate"]
    return s


def scn_relog(rnd, sid):
    """asynchronous logging where the sink itself logs (from the logger thread): the nested calls must be handed off
    like any other and delivered later, in order"""
    n = rnd.choice([1, 2, 3])
    return {"id": sid, "mode": "logger", "producers": n, "msgs": rnd.randint(2, 8), "jitter": rnd.choice([0, 20, 50]),
            "seed": rnd.randrange(1 << 30), "sinkDelayUs": rnd.choice([0, 100]), "pre": rnd.choice([["move"], ["move", "install"]]),
            "script": [], "script2": [], "heapctx": False, "relog": rnd.randint(1, 3), "kind": "async-relog"}


def scn_stall(rnd, sid):
    """synchronous logging with one handler call that takes seconds: the other threads have to wait, not give up"""
    return {"id": sid, "mode": "bare" if sid % 3 == 0 else "logger", "producers": 3, "msgs": 2, "jitter": 0, "seed": rnd.randrange(1 << 30),
            "sinkDelayUs": 0, "stallMs": 3400, "pre": [], "script": [], "script2": [], "heapctx": False, "kind": "sync-stall"}


def scn_lastmsg(rnd, sid):
    """the stop finds the last message still in the sink: the stopper has read "pending > 0" and is held right there
    until the worker has finished that message (decrement included) - the classic place for a lost wake-up or a stale
    read; forced with gates, then validated like every other execution"""
    gates = [["W", "wk.begin"], ["M", "rs.enter"], ["M", "rs.wait.unlock"], ["W", "wk.end"], ["M", "rs.wait.relock"]]
    return {"id": sid, "mode": rnd.choice(["logger", "bare"]), "producers": 1, "msgs": 1, "jitter": 0, "seed": sid,
            "sinkDelayUs": rnd.choice([0, 300]), "pre": ["move"], "script": ["waitProducers", "reset"], "script2": [],
            "heapctx": False, "kind": "life-lastmsg", "gates": gates}


def scn_life(rnd, sid):
    """move / reset cycles while the producers are logging; sometimes a second stopper"""
    n = rnd.choice([1, 2, 2, 3, 4])
    ops = []
    for _ in range(rnd.randint(1, 4)):
        ops.append("sleep:%d" % rnd.choice([0, 50, 200, 1000, 3000]))
        ops.append(rnd.choice(["reset", "reset", "move", "move"]))
    ops2 = []
    if rnd.random() < 0.5:
        for _ in range(rnd.randint(1, 3)):
            ops2.append("sleep:%d" % rnd.choice([0, 50, 200, 1000, 3000]))
            ops2.append(rnd.choice(["reset", "reset", "move"]))
    return {"id": sid, "mode": rnd.choice(["logger", "logger", "bare"]), "producers": n, "msgs": rnd.randint(3, 30),
            "jitter": rnd.choice([10, 30, 60]), "seed": rnd.randrange(1 << 30), "sinkDelayUs": rnd.choice([0, 100, 1000, 3000]),
            "pre": rnd.choice([["move"], ["move", "install"], ["move", "install"], []]), "script": ops, "script2": ops2,
            "heapctx": rnd.random() < 0.5, "kind": "life"}


def real_ops(seq):
    return [o for o in seq if o in ("move", "reset")]


# ------------------------------------------------------------------------------------------------
# driver + translation
# ------------------------------------------------------------------------------------------------

def run_driver(bdir, scns, work, tag, timeout=None):
    # a correct run takes well under a second per scenario (plus deliberate stalls); a stuck thread must not cost the
    # whole budget
    if timeout is None:
        timeout = 120 + 3 * len(scns) + sum(s.get("stallMs", 0) // 1000 * 3 for s in scns)
    work = Path(work)
    work.mkdir(parents=True, exist_ok=True)
    inp = work / f"{tag}.scn"
    inp.write_text("".join(json.dumps(s) + "\n" for s in scns))
    outp = work / f"{tag}.raw"
    env = dict(os.environ)
    env["ASAN_OPTIONS"] = "detect_leaks=0:abort_on_error=0"
    env["UBSAN_OPTIONS"] = "halt_on_error=1:print_stacktrace=1"
    with open(outp, "wb") as out:
        try:
            p = subprocess.run([str(bdir / "drv_threads"), str(inp)], stdout=out, stderr=subprocess.PIPE, timeout=timeout, env=env)
            rc, err = p.returncode, p.stderr.decode(errors="replace")
        except subprocess.TimeoutExpired as ex:
            rc, err = -9, "timeout: the driver did not finish (a thread is stuck)\n" + (ex.stderr or b"").decode(errors="replace")
    runs = []
    with open(outp, "rb") as f:
        for line in f:
            line = line.strip()
            if not line:
                continue
            try:
                evt = json.loads(line)
            except ValueError:
                continue
            if evt["e"] == "Reset":
                runs.append([])
            if runs:
                runs[-1].append(evt)
    inp.unlink()
    outp.unlink()
    return runs, rc, err


def translate(scn, raw, recheck=True):
    n, k = scn["producers"], scn["msgs"]
    relog = scn.get("relog", 0)
    script = {"M": real_ops(scn.get("pre", [])) + real_ops(scn.get("script", [])) + ["reset"],
              "S2": real_ops(scn.get("script2", []))}
    left = {t: len(v) for t, v in script.items()}
    evs = []
    info = {"async_deliveries": 0, "sync_deliveries": 0, "posts": 0, "resets_with_backlog": 0, "points": 0, "overlap_windows": 0,
            "crashed": False, "blocked": False, "finished": False}
    for e in raw:
        kind = e["e"]
        if kind == "Reset":
            evs.append({"e": "Reset", "scn": scn["id"],
                        "conf": {"useLogger": scn["mode"] != "bare", "recheck": recheck, "safeEnv": True, "locks": True, "eager": True, "rt": True, "disc": True, "rehome": True,
                                 "fatalEvery": scn.get("fatalEvery", 0)},
                        "todo": dict({"p%d" % p: [["p%d" % p, i] for i in range(1, k + 1)] for p in range(1, n + 1)},
                                     **({"pw": [["pw", i] for i in range(1, relog + 1)]} if relog else {})),
                        "script": script, "app": "alive"})
        elif kind == "Op":
            ev = {"e": "Op", "t": e["t"], "op": e["op"], "ph": e["ph"], "left": 0}
            if e["ph"] == "end":
                left[e["t"]] -= 1
                ev["left"] = left[e["t"]]
            evs.append(ev)
        elif kind == "Pt":
            info["points"] += 1
            if e["p"] == "oth.posting":
                info["posts"] += 1
            if e["p"] == "rs.wait.unlock":
                info["resets_with_backlog"] += 1
            evs.append({"e": "Pt", "t": e["t"], "p": e["p"], "a": int(e["a"]), "b": int(e["b"])})
        elif kind == "Deliver":
            info["async_deliveries" if e["t"] == "W" else "sync_deliveries"] += 1
            evs.append({"e": "Deliver", "t": e["t"], "m": e["m"], "n": e["n"], "hasn": e["hasn"], "f": e["f"], "time": e["time"]})
        elif kind in ("Enter", "Exit"):
            evs.append({"e": kind, "t": e["t"], "m": e["m"]})
        elif kind == "Flush":
            info["fatal_flushes"] = info.get("fatal_flushes", 0) + (1 if e["ph"] == "begin" else 0)
            evs.append({"e": "Flush", "t": e["t"], "ph": e["ph"]})
        elif kind == "CallBegin":
            evs.append({"e": "CallBegin", "t": e["t"], "m": e["m"], "f": e["f"], "ms": e["ms"]})
        elif kind == "CallEnd":
            evs.append({"e": "CallEnd", "t": e["t"], "m": e["m"], "ms": e["ms"]})
        elif kind == "GateOpen":
            evs.append({"e": "GateOpen"})
        elif kind == "Finished":
            info["finished"] = True
            info["gates_passed"] = e.get("gates_passed", 0)
            info["gates_abandoned"] = e.get("gates_abandoned", 0)
            evs.append({"e": "Finished", "total": n * k + relog})
        elif kind == "Crashed":
            info["crashed"] = True
            evs.append({"e": "Crashed", "sig": e.get("sig", 0)})
        elif kind == "Blocked":
            info["blocked"] = True
            evs.append({"e": "Blocked"})
    return evs, info


def execute(bdir, scns, work, tag):
    out = []
    pos = 0
    # the driver stops at the first scenario that crashes or hangs; carry on with the rest
    while pos < len(scns):
        runs, rc, err = run_driver(bdir, scns[pos:], work, f"{tag}.{pos}")
        for s, raw in zip(scns[pos:], runs):
            evs, info = translate(s, raw)
            info["stderr"] = ""
            out.append((s, evs, info))
        done = len(runs)
        if rc != 0:
            if not runs:
                raise C.ToolFailure(f"drv_threads failed before producing a trace (rc={rc}): {err[-1500:]}")
            s, evs, info = out[-1]
            info["stderr"] = err[-3000:]
            if not info["finished"] and not info["crashed"]:
                evs.append({"e": "Crashed", "sig": rc})
                info["crashed"] = True
            pos += done
        else:
            pos += done
            if done == 0:
                break
    return out


# ------------------------------------------------------------------------------------------------
# TLC behaviours forced onto the real threads (spec -> implementation direction, best effort)
# ------------------------------------------------------------------------------------------------

POINTS = {"pm.enter", "pm.locked", "oth.locked", "oth.posting", "oth.posted", "oth.sync.begin", "oth.sync.end", "pm.done",
          "wk.begin", "wk.processed", "wk.end", "rs.enter", "rs.locked", "rs.wait.unlock", "rs.quit", "rs.joined", "rs.cleared",
          "mv.locked", "mv.started"}


def tlc_behaviour(seed):
    """one complete behaviour of MC_Threads_sched.cfg from TLC's simulator: (script of M, script of S2, gates)"""
    r = C.run_tlc("MC_Threads", "MC_Threads_sched.cfg", workers=1, simulate=1, depth=500, seed=seed, timeout=300, xmx="2g")
    if r.violation != "invariant NotFinished":
        return None
    import re
    pcs = []
    scripts = None
    for m in re.finditer(r"/\\ pc = \[(.*?)\]", r.out, re.S):
        d = dict(re.findall(r'(\w+) \|-> "([^"]*)"', m.group(1)))
        pcs.append(d)
    m = re.search(r'/\\ script = \[M \|-> <<(.*?)>>, S2 \|-> <<(.*?)>>\]', r.out)
    if m:
        scripts = ([x.strip().strip('"') for x in m.group(1).split(",") if x.strip()],
                   [x.strip().strip('"') for x in m.group(2).split(",") if x.strip()])
    if not pcs or not scripts:
        return None
    gates = []
    for a, b in zip(pcs, pcs[1:]):
        for t in b:
            if a.get(t) != b[t] and b[t] in POINTS:
                gates.append([t, b[t]])
                # the code has a point before the handler mutex is taken that the model has no pc for: the thread
                # arrives there right after the previous point and is held until it is its turn to lock
                if b[t] == "pm.locked":
                    gates.append([t, "oth.enter"])
    # moveToOwnThread: mv.enter precedes mv.locked
    out = []
    for g in gates:
        if g[1] == "mv.locked":
            # arrive at mv.enter as early as possible: right after the thread's previous entry
            k = len(out)
            while k > 0 and out[k - 1][0] != g[0]:
                k -= 1
            out.insert(k, [g[0], "mv.enter"])
        out.append(g)
    return scripts[0], scripts[1], out


def scn_from_behaviour(sid, beh, rnd):
    m_script, s2_script, gates = beh
    return {"id": sid, "mode": "logger", "producers": 2, "msgs": 2, "jitter": 0, "seed": sid, "sinkDelayUs": rnd.choice([0, 200]),
            "pre": [], "script": [o for o in m_script if o in ("move", "reset")], "script2": [o for o in s2_script if o in ("move", "reset")],
            "heapctx": False, "kind": "tlc-schedule", "gates": gates}


def tlc_schedules(n, seed0):
    from concurrent.futures import ThreadPoolExecutor
    with ThreadPoolExecutor(max_workers=8) as ex:
        res = list(ex.map(tlc_behaviour, [seed0 * 1000 + i for i in range(n)]))
    return [r for r in res if r]


# ------------------------------------------------------------------------------------------------
# lifecycle children (one process per stop path)
# ------------------------------------------------------------------------------------------------

LIFE_SCRIPTS = {
    "quit": ["appCreate", "move", "execQuit", "appDestroy", "reset"],
    # the same with moveToOwnThread() called by a second thread that runs no event loop (script of S2: one move)
    "quit2": ["appCreate", "execQuit", "appDestroy", "reset"],
    "reset": ["appCreate", "move", "reset", "appDestroy", "reset"],
    "cycle": ["appCreate", "move", "reset", "move", "reset", "appDestroy", "reset"],
    "dtorlive": ["appCreate", "move", "reset", "free", "appDestroy"],
    # the logger object is destroyed while the application lives, which then quits before / after the event loop
    # has deleted the stopped thread object (the aboutToQuit hook must be gone with the logger)
    "dtorquit": ["appCreate", "move", "reset", "free", "execQuit", "appDestroy"],
    "dtorspin": ["appCreate", "move", "reset", "free", "spin", "execQuit", "appDestroy"],
    "cyclequit": ["appCreate", "move", "reset", "move", "execQuit", "appDestroy", "reset"],
}
UNSAFE_PATHS = ["noexec", "noapp"]


def life_child(bdir, path, n, k, delay, jitter, seed, late, timeout=40):
    env = dict(os.environ)
    env["ASAN_OPTIONS"] = "detect_leaks=0"
    env["UBSAN_OPTIONS"] = "halt_on_error=1"
    t0 = time.time()
    try:
        p = subprocess.run([str(bdir / "drv_lifecycle"), path, str(n), str(k), str(delay), str(jitter), str(seed), "1" if late else "0"],
                           capture_output=True, timeout=timeout, env=env)
        rc, out, err = p.returncode, p.stdout, p.stderr.decode(errors="replace")
    except subprocess.TimeoutExpired as ex:
        rc, out, err = "hung", ex.stdout or b"", (ex.stderr or b"").decode(errors="replace")
    raw = []
    for line in out.splitlines():
        try:
            raw.append(json.loads(line))
        except ValueError:
            pass
    return raw, rc, err, time.time() - t0


def translate_life(sid, path, n, k, late, raw, rc):
    script = {"M": list(LIFE_SCRIPTS[path]), "S2": ["move"] if path == "quit2" else []}
    todo = {"p%d" % p: [["p%d" % p, i] for i in range(1, k + 1)] for p in range(1, n + 1)}
    total = n * k
    if late:
        todo["p%d" % (n + 1)] = [["p%d" % (n + 1), i] for i in range(1, k + 1)]
        total += k
    if path in ("cycle", "cyclequit"):
        todo["p%d" % (n + 2)] = [["p%d" % (n + 2), i] for i in range(1, k + 1)]
        total += k
    scn = {"id": sid, "mode": "logger", "producers": n, "msgs": k, "kind": "life-child:" + path, "late": late}
    left = len(script["M"])
    evs = []
    info = {"async_deliveries": 0, "sync_deliveries": 0, "posts": 0, "resets_with_backlog": 0, "points": 0,
            "crashed": False, "blocked": False, "finished": False, "stderr": ""}
    for e in raw:
        kind = e["e"]
        if kind == "Reset":
            evs.append({"e": "Reset", "scn": sid,
                        "conf": {"useLogger": True, "recheck": True, "safeEnv": True, "locks": True, "eager": True, "rt": True, "disc": True, "rehome": True, "fatalEvery": 0},
                        "todo": todo, "script": script, "app": "none"})
        elif kind == "App":
            left -= 1
            evs.append({"e": "App", "t": "M", "op": e["op"]})
        elif kind == "Op":
            ev = {"e": "Op", "t": e.get("t", "M"), "op": e["op"], "ph": e["ph"], "left": 0}
            if e["ph"] == "end":
                ev["left"] = -1
            evs.append(ev)
        elif kind == "Pt":
            info["points"] += 1
            if e["p"] == "oth.posting":
                info["posts"] += 1
            if e["p"] == "rs.wait.unlock":
                info["resets_with_backlog"] += 1
            evs.append({"e": "Pt", "t": e["t"], "p": e["p"], "a": int(e["a"]), "b": int(e["b"])})
        elif kind == "Deliver":
            info["async_deliveries" if e["t"] == "W" else "sync_deliveries"] += 1
            evs.append({"e": "Deliver", "t": e["t"], "m": e["m"], "n": e["n"], "hasn": e["hasn"], "f": e["f"], "time": e["time"]})
        elif kind in ("Enter", "Exit"):
            evs.append({"e": kind, "t": e["t"], "m": e["m"]})
        elif kind == "CallBegin":
            evs.append({"e": "CallBegin", "t": e["t"], "m": e["m"], "f": e["f"], "ms": e["ms"]})
        elif kind == "CallEnd":
            evs.append({"e": "CallEnd", "t": e["t"], "m": e["m"], "ms": e["ms"]})
        elif kind == "Finished":
            info["finished"] = True
            evs.append({"e": "Finished", "total": total})
        elif kind == "Crashed":
            info["crashed"] = True
            evs.append({"e": "Crashed", "sig": e.get("sig", 0)})
    if rc == "hung":
        evs.append({"e": "Hung"})
        info["crashed"] = True
    elif rc != 0 and not info["crashed"]:
        evs.append({"e": "Crashed", "sig": rc})
        info["crashed"] = True
    return scn, evs, info


def run_life_children(bdir, rnd, count):
    out = []
    for i in range(count):
        path = rnd.choice(["quit", "quit", "quit2", "reset", "cycle", "dtorlive", "dtorquit", "dtorspin", "cyclequit"])
        n = rnd.choice([1, 2, 3])
        k = rnd.choice([0, 1, 5, 5, 20, 50])
        late = path in ("quit", "quit2", "reset") and rnd.random() < 0.4
        delay = rnd.choice([0, 100, 1000, 5000]) if k <= 20 else rnd.choice([0, 100, 500])
        raw, rc, err, wall = life_child(bdir, path, n, k, delay, rnd.choice([0, 20, 50]), rnd.randrange(1 << 20), late)
        scn, evs, info = translate_life(9000 + i, path, n, k, late, raw, rc)
        info["stderr"] = err[-2000:]
        info["wall"] = wall
        out.append((scn, evs, info))
    return out


def probe_unsafe_paths(bdir):
    """the two paths outside the safe environment (known finding no-app): what happens today"""
    res = {}
    for path in UNSAFE_PATHS:
        raw, rc, err, wall = life_child(bdir, path, 1, 3, 500, 0, 1, False, timeout=6)
        delivered = sum(1 for e in raw if e["e"] == "Deliver")
        res[path] = {"rc": rc, "delivered": delivered, "expected": 3,
                     "violates": rc == "hung" or delivered < 3 or rc != 0}
    return res


# ------------------------------------------------------------------------------------------------
# TLC
# ------------------------------------------------------------------------------------------------

MC = {
    "C02": {"quick": ["MC_Threads_sync.cfg", "MC_Threads_syncbare.cfg"], "thorough": ["MC_Threads_sync.cfg", "MC_Threads_syncbare.cfg", "MC_Threads_sync4.cfg"],
            "witness": [("MC_Threads_nolock.cfg", "invariant MutualExclusion")]},
    "C03": {"quick": ["MC_Threads_async.cfg"], "thorough": ["MC_Threads_async.cfg", "MC_Threads_async3.cfg"], "witness": []},
    "C04": {"quick": ["MC_Threads_life.cfg", "MC_Threads_twofixed.cfg", "MC_Threads_rehome.cfg"],
            "thorough": ["MC_Threads_life.cfg", "MC_Threads_twofixed.cfg", "MC_Threads_rehome.cfg", "MC_Threads_life3.cfg"],
            "witness": [("MC_Threads_two.cfg", "invariant NoUseAfterFree"), ("MC_Threads_noapp.cfg", "temporal"),
                        ("MC_Threads_norehome.cfg", "action-property QuitFindsHook")]},
}


def mc_part(pid, tier):
    total_d = total_g = 0
    depth = 0
    cov = {}
    for cfg in MC[pid][tier]:
        r = C.tlc_must_pass(C.run_tlc("MC_Threads", cfg, coverage=True, timeout=3400, xmx="24g"), cfg)
        if r.violation:
            raise C.ToolFailure(f"the thread model itself violates {r.violation} under {cfg}:\n{r.out[-3000:]}")
        total_d += r.distinct
        total_g += r.generated
        depth = max(depth, r.depth)
        # QtlThreads' next-state relation is (producer / worker / stopper step) /\ UNCHANGED conf, which TLC reports as one
        # action; how often each action fired is read off the expression-level coverage
        spec_text = (C.SPEC / "QtlThreads.tla").read_text()
        step_defs = spec_text[spec_text.index("ProducerStep(t) =="):spec_text.index("Next ==")]
        actions = set(re.findall(r"\b([A-Z]\w+)\(", step_defs)) | set(re.findall(r"\b(W[A-Z]\w+)\b", step_defs))
        for a, n in C.action_fired(r, "QtlThreads").items():
            if a in actions:
                cov[a] = max(cov.get(a, 0), n)
    need = {"C02": ["CallBegin", "LockL", "LockH", "Branch", "UnlockH", "FlushBegin", "FlushEnd", "UnlockL", "CallEnd", "PipeEnter",
                    "PipeRead", "PipeWrite", "PipeDeliver", "PipeExit"],
            "C03": ["Post", "WTake", "WDec", "WBack", "PipeDeliver"],
            "C04": ["RsEnter", "RsLock", "RsNoThread", "RsHasThread", "RsCheckBusy", "RsRelock", "RsQuit", "RsJoin", "RsClear", "MvLock",
                    "MvSkip", "MvCreate", "AppCreate", "AppQuit", "AppDestroy", "AppSpin", "Free", "WFinish", "Post"]}[pid]
    never = [a for a in need if cov.get(a, 0) == 0]
    if never:
        raise C.ToolFailure(f"vacuity: the exhaustive runs of {pid} never took {never} (coverage: {cov})")
    wit = {}
    for cfg, expect in MC[pid]["witness"]:
        r = C.run_tlc("MC_Threads", cfg, timeout=900, xmx="8g")
        if r.error:
            raise C.ToolFailure(f"witness run {cfg} failed:\n{r.error}")
        if r.violation != expect:
            raise C.ToolFailure(f"vacuity: {cfg} was expected to violate '{expect}', got {r.violation}")
        wit[cfg] = "violates " + expect + " as expected"
    return total_d, total_g, depth, cov, wit


def validate(pid, executed, work, tag, seed):
    runs = [evs for (_, evs, _) in executed]
    accepted, failures = C.validate_runs("Trace_Threads", "Trace_Threads.cfg", runs, work, tag, mode="max", chunk=25,
                                         timeout=1800)
    viol = 0
    for f in failures:
        s, evs, info = executed[f["run_index"]]
        rp = C.save_replay(pid, f"scn_{seed}_{tag}_{s['id']}.json",
                           {"kind": "trace-rejected", "violated": f.get("violation"), "scenario": s,
                            "matched_in_run": f["matched_in_run"], "rejected_event": f["event"],
                            "events_before": f["run"][max(0, f["matched_in_run"] - 14):f["matched_in_run"]],
                            "crashed": info["crashed"], "blocked": info["blocked"], "stderr": info.get("stderr", ""),
                            "tlc": f["tlc_tail"],
                            # the complete recorded execution: ./check <id> --replay <this file> validates it again
                            "trace": f["run"]})
        C.report_violation(pid, rp)
        viol += 1
    return accepted, failures, viol


CAMPAIGN = {
    # (sync, async, life, life children) scenario counts
    "C02": {"quick": (26, 0, 6, 0), "thorough": (400, 0, 60, 0)},
    "C03": {"quick": (0, 30, 0, 0), "thorough": (0, 500, 0, 0)},
    "C04": {"quick": (0, 6, 28, 24), "thorough": (0, 60, 500, 300)},
}

NONTRIVIAL = {
    "C02": ("at least two producers logged synchronously with their calls overlapping in time",
            lambda s, info: s.get("producers", 1) >= 2 and info["sync_deliveries"] >= 2),
    "C03": ("at least one message was handed to the worker and delivered by it",
            lambda s, info: info["async_deliveries"] >= 1),
    "C04": ("a stop request met a non-empty backlog (it had to wait), or messages were logged after the stop",
            lambda s, info: info["resets_with_backlog"] >= 1 or (info["async_deliveries"] >= 1 and info["sync_deliveries"] >= 1)),
}


def run(pid, tier, seed):
    t0 = time.time()
    distinct, generated, depth, cov, wit = mc_part(pid, tier)
    bdir = C.ensure_harness("asan", ["drv_threads", "drv_lifecycle"])
    work = C.BUILD / "work" / pid
    rnd = random.Random(seed * 15485863 + int(pid[1:]))
    ns, na, nl, nc = CAMPAIGN[pid][tier]
    scns = []
    for _ in range(ns):
        scns.append(scn_sync(rnd, len(scns) + 1))
    for _ in range(na):
        scns.append(scn_async(rnd, len(scns) + 1))
    for _ in range(nl):
        scns.append(scn_life(rnd, len(scns) + 1))
    if pid == "C03":
        for _ in range(8 if tier == "quick" else 120):
            scns.append(scn_relog(rnd, len(scns) + 1))
    if pid == "C02":
        for _ in range(3 if tier == "quick" else 9):
            scns.append(scn_stall(rnd, len(scns) + 1))
    if pid == "C04":
        for _ in range(3 if tier == "quick" else 20):
            scns.append(scn_lastmsg(rnd, len(scns) + 1))
    nsched = {"C02": 0, "C03": 6, "C04": 12}[pid] if tier == "quick" else {"C02": 0, "C03": 60, "C04": 150}[pid]
    behaviours = tlc_schedules(nsched, seed) if nsched else []
    for b in behaviours:
        scns.append(scn_from_behaviour(len(scns) + 1, b, rnd))
    executed = execute(bdir, scns, work, f"b{seed}")
    if nc:
        executed += run_life_children(bdir, rnd, nc)
    accepted, failures, viol = validate(pid, executed, work, f"v{seed}", seed)

    findings = C.open_findings(pid)
    unsafe = None
    if pid == "C04":
        unsafe = probe_unsafe_paths(bdir)
        for path, r in unsafe.items():
            if r["violates"]:
                if "no-app" in findings:
                    C.report_known(pid, f"key=no-app path={path}: {findings['no-app']['text']} "
                                        f"(observed: exit={r['rc']}, delivered {r['delivered']}/{r['expected']})")
                else:
                    rp = C.save_replay(pid, f"unsafe_{path}.json", {"kind": "lifecycle-child", "path": path, "result": r})
                    C.report_violation(pid, rp)
                    viol += 1

    signal_info = None
    if pid == "C03":
        # beyond the list: SignalSink hands messages to a slot in the receiver's thread (spec/QtlSignal.tla); it rests on the
        # same deep copy of LogMessage as the hand-off.  Reported as a NOTE, never as a verdict on C03.
        from . import signal_spec
        try:
            mcs = C.run_tlc("MC_Signal", "MC_Signal.cfg", timeout=600, workers=4)
            if not mcs.ok or mcs.violation:
                print("NOTE property=C03 MC_Signal: " + str(mcs.violation or mcs.error)[:200], flush=True)
            sb = C.ensure_harness("asan", ["drv_signal"])
            s_acc, s_fail, signal_info = signal_spec.campaign(sb, rnd, 40 if tier == "quick" else 1500, C.BUILD / "work" / "signal")
            signal_info = dict(signal_info, accepted_runs=s_acc, rejected_runs=len(s_fail), mc_states=mcs.distinct)
            if s_fail:
                print(f"NOTE property=C03 the SignalSink machine (spec/QtlSignal.tla) rejected {len(s_fail)} of {signal_info['runs']} runs "
                      f"(first: event {s_fail[0]['event']})", flush=True)
        except C.ToolFailure as e:
            print("NOTE property=C03 SignalSink conformance could not run: " + str(e)[:300], flush=True)
    name, pred = NONTRIVIAL[pid]
    nt = sum(1 for (s, _, info) in executed if pred(s, info))
    tot = lambda k: sum(info[k] for (_, _, info) in executed)
    kinds = {}
    for (s, _, _) in executed:
        kinds[s["kind"]] = kinds.get(s["kind"], 0) + 1
    samples = [{"scenario": s, "first_events": evs[1:10]} for (s, evs, _) in executed[:1] + executed[-1:]]
    C.write_evidence(pid, tier, seed, "model_checking", {
        "states": distinct, "transitions": generated,
        "traces_validated_against_impl": accepted,
        "samples": samples,
        "evaluations": len(executed), "distinct_nontrivial": nt,
        "rule": "seeded scenarios on the real Logger / bare OwnThreadHandler<Pipeline>: 2-48 producer threads logging through "
                "QMessageLogger, seeded jitter at every verification point and probe, slow / gated sinks, move/reset scripts on "
                "one or two stopper threads, complete behaviours drawn from TLC's simulator (MC_Threads_sched.cfg) and forced onto the real "
                "threads point by point (best effort, then recorded and validated like the others), stop paths in child processes (application quit, explicit reset, cycles, logger "
                "destroyed while the application lives, singleton destroyed at exit); each execution (call begin/end, points with "
                "their scalars, probe events with every LogMessage accessor) validated by TLC against QtlThreads; non-trivial = "
                + name,
        "exhaustive": False,
        "tlc_exhaustive_configs": MC[pid][tier], "tlc_depth": depth, "tlc_action_coverage (evaluations of each action's last conjunct, over the exhaustive configurations)": cov, "tlc_witnesses": wit,
        "trace_events": sum(len(e) for (_, e, _) in executed), "verification_points_validated": tot("points"),
        "async_deliveries": tot("async_deliveries"), "sync_deliveries": tot("sync_deliveries"), "hand_offs": tot("posts"), "fatal_flushes_inside_the_lock": sum(i.get("fatal_flushes", 0) for (_, _, i) in executed),
        "stop_waits_with_backlog": tot("resets_with_backlog"), "scenario_kinds": kinds,
        "tlc_behaviours_forced_on_the_real_threads": len(behaviours),
        "schedule_gates_honoured": sum(info.get("gates_passed", 0) for (_, _, info) in executed),
        "schedule_gates_abandoned": sum(info.get("gates_abandoned", 0) for (_, _, info) in executed),
        "unsafe_environment_paths": unsafe, "rejected_runs": len(failures),
        "beyond_the_list": {"signal_sink (spec/QtlSignal.tla)": signal_info},
    }, time.time() - t0, viol, [
        "TLC and the Json/IOUtils community modules are trusted",
        "events are ordered by one process-wide mutex-protected sequence; a mutex release is not an event: a mutex whose owner has "
        "passed its last point inside the locked scope counts as available (conf.eager)",
        "Qt: posted events of one receiver are delivered in posting order; events for objects in a QThread are discarded when no "
        "QCoreApplication instance exists; QThread::wait returns after the event loop has ended",
        "schedules are those the seeded jitter produces on this machine; the exhaustive part is the TLC run on the small model",
        "C04 is claimed for the safe environment (asynchronous logging is started and stopped inside the life of the application "
        "object); outside it see known_findings.txt key=no-app",
    ])
    return 1 if viol else 0


def replay(pid, path):
    payload = json.loads(open(path).read())
    s = payload.get("scenario")
    if not s:
        print("replay file has no scenario")
        return 2
    work = C.BUILD / "work" / pid
    if payload.get("trace"):
        # the recorded execution itself (schedules differ from run to run, the record does not)
        acc, fails = C.validate_runs("Trace_Threads", "Trace_Threads.cfg", [payload["trace"]], work, "replay", mode="max",
                                     chunk=25, timeout=1800)
        if fails:
            print("the recorded execution is rejected at event %d: %s" % (fails[0]["matched_in_run"], fails[0]["event"]))
            C.report_violation(pid, path)
            return 1
        print("the recorded execution is accepted by the current specification")
        return 0
    bdir = C.ensure_harness("asan", ["drv_threads", "drv_lifecycle"])
    if str(s.get("kind", "")).startswith("life-child:"):
        path_name = s["kind"].split(":", 1)[1]
        raw, rc, err, wall = life_child(bdir, path_name, s["producers"], s["msgs"], 500, 30, 1, s.get("late", False))
        executed = [translate_life(s["id"], path_name, s["producers"], s["msgs"], s.get("late", False), raw, rc)]
    else:
        executed = execute(bdir, [s], work, "replay")
    accepted, failures, viol = validate(pid, executed, work, "replay", 0)
    print("accepted" if not failures else "rejected at event %d (schedules differ from run to run)" % failures[0]["matched_in_run"])
    return 1 if viol else 0
