"""Generation of category-rule lists: spec-level rules (for QtlCategory.tla) and their rendering to
the textual rule syntax (for the real CategoryFilter), with separators, whitespace and malformed lines.

The spec-level rule of a rendered line is derived from the *stated* grammar, not from the code:
    line  ::= ws* LHS ws* '=' ws* ('true'|'false') ws*
    LHS   ::= non-blank text; if it ends in .debug/.info/.warning/.critical and something precedes that
              suffix, the suffix is the type and the rest is the category pattern
"""
import re

TYPES = ["debug", "info", "warning", "critical"]
ALLTYPES = TYPES + ["fatal"]

# characters allowed in category patterns / names: printable ASCII without the rule syntax
# characters ('=', ';', blanks); includes every regular-expression metacharacter
PAT_CHARS = "abcxyz.ABZ019_-*" + "+()[]{}^$|?\\/:,#!~<>@&%'\"`"
CAT_EXTRA = "=; "

GARBAGE = ["a.b", "=true", "x = maybe", "a b=true", "x=TRUE", "x=true false", "# comment", "x=tru",
           "=false", "   ", "a.debug", "a.debug=1", "x=", "true", "x:true", "x=True", "\t", "x= true y"]

WS = ["", "", "", " ", "\t", "  ", " \t", "\r"]


def units(s):
    return [ord(c) for c in s]   # all generated text is BMP / ASCII here


def split_lhs(lhs):
    m = re.match(r"^(.+)\.(debug|info|warning|critical)$", lhs, re.S)
    if m:
        return m.group(1), m.group(2)
    return lhs, ""


def gen_pattern(rnd, pool):
    """a category pattern: mostly derived from the category pool so that rules actually match"""
    r = rnd.random()
    if r < 0.5 and pool:
        base = rnd.choice(pool)
        # replace a random slice by '*'
        if base and rnd.random() < 0.8:
            i = rnd.randint(0, len(base))
            j = rnd.randint(i, len(base))
            base = base[:i] + "*" + base[j:]
            if rnd.random() < 0.3 and base:
                k = rnd.randint(0, len(base))
                base = base[:k] + "*" + base[k:]
        return base or "*"
    if r < 0.6:
        return "*"
    n = rnd.randint(1, 6)
    return "".join(rnd.choice(PAT_CHARS) for _ in range(n))


def gen_category_pool(rnd):
    pool = ["default", "app", "app.net", "app.net.http", "net", "qt.core", "a", ""]
    for _ in range(rnd.randint(2, 6)):
        n = rnd.randint(1, 8)
        pool.append("".join(rnd.choice(PAT_CHARS.replace("*", "") + ("*" if rnd.random() < 0.1 else "a"))
                            for _ in range(n)))
    return pool


def broken_rule(rnd, pool):
    """a well-formed rule cut in two at its '=' by a separator: two malformed lines, each to be ignored (a parser
    that matches across line ends would fuse them into a rule again)"""
    lhs = rnd.choice(["*", "*", rnd.choice(pool) or "*", (rnd.choice(pool) or "a")[:1] + "*"])
    if rnd.random() < 0.3:
        lhs += "." + rnd.choice(TYPES)
    val = rnd.choice(["true", "false", "false"])
    cut = rnd.choice([(lhs, "=" + val), (lhs + "=", val), (lhs + " =", " " + val), (lhs + rnd.choice(WS), rnd.choice(WS) + "= " + val)])
    return [cut[0], cut[1]]


def gen_rules(rnd, pool, max_rules=5):
    """returns (spec_rules, text, lines) ; spec_rules = list of {pat:[units], typed:str, on:bool}"""
    rules = []
    parts = []
    n = rnd.randint(0, max_rules)
    made = []
    for _ in range(n):
        while rnd.random() < 0.25:
            parts.append(rnd.choice(GARBAGE))
        if rnd.random() < 0.15:
            parts += broken_rule(rnd, pool)
        if made and rnd.random() < 0.25:
            # a rule restated verbatim further down the list (defaults and overrides concatenated): its later
            # position is what counts
            line, rule = rnd.choice(made)
            if rnd.random() < 0.6:
                # ... after a broader rule with the opposite verdict
                wide = rnd.choice(["*", "*", chr(rule["pat"][0]) + "*" if rule["pat"] and rule["pat"][0] != 42 else "*"])
                parts.append(wide + "=" + ("false" if rule["on"] else "true"))
                rules.append({"pat": units(wide), "typed": "", "on": not rule["on"]})
            parts.append(line)
            rules.append(dict(rule))
            continue
        pat = gen_pattern(rnd, pool)
        typed = rnd.choice(["", "", "debug", "info", "warning", "critical"])
        lhs = pat + ("." + typed if typed else "")
        # the stated grammar decides what this line means (e.g. pattern "x.info" untyped IS typed info)
        p2, t2 = split_lhs(lhs)
        on = rnd.random() < 0.5
        line = rnd.choice(WS) + lhs + rnd.choice(WS) + "=" + rnd.choice(WS) + ("true" if on else "false") + rnd.choice(WS)
        parts.append(line)
        rules.append({"pat": units(p2), "typed": t2, "on": on})
        made.append((line, rules[-1]))
    while rnd.random() < 0.25:
        parts.append(rnd.choice(GARBAGE))
    if rnd.random() < 0.15:
        parts += broken_rule(rnd, pool)
    text = ""
    for i, p in enumerate(parts):
        text += p
        if i + 1 < len(parts) or rnd.random() < 0.3:
            text += rnd.choice([";", "\n", ";", "\n", ";;", "\n\n", ";\n"])
    return rules, text


def probe_categories(rnd, rules, pool, k=6):
    """categories worth probing: instances and near-misses of the patterns plus pool entries"""
    cats = set()
    for r in rules:
        pat = "".join(chr(u) for u in r["pat"])
        inst = ""
        for ch in pat:
            if ch == "*":
                inst += rnd.choice(["", "a", ".x", "zz.", "*"])
            else:
                inst += ch
        cats.add(inst)
        cats.add(inst + rnd.choice(["x", ".", ""]))
        cats.add(rnd.choice(["x", ""]) + inst)
        if inst:
            cats.add(inst[:-1])
    for _ in range(k):
        cats.add(rnd.choice(pool))
    cats = [c for c in cats if all(32 <= ord(ch) < 127 for ch in c)]
    rnd.shuffle(cats)
    return cats[:max(k, 4)]
