"""Conformance of the environment attribute handlers (spec/QtlEnv.tla) and of the line sinks IODeviceSink / SyslogSink
(spec/QtlLineSinks.tla) - both beyond the listed properties.  Histories are generated here, run by harness/drv_env.cpp
against the real classes, and replayed by TLC through the modules' actions."""
import json
import shutil
import subprocess

from . import common as C

ORGS = ["o1", "o2"]
NAMES = ["a1", "a2"]
VERS = ["", "1.0", "2.1"]
UNAMES = ["app_uuid", "id", "installation", "app_uuid"]
SYSKEYS = ["boot_unique_id", "build_abi", "build_cpu_arch", "cpu_arch", "kernel_type", "kernel_version",
           "machine_host_name", "machine_unique_id", "os_name", "os_version", "pretty_product_name"]
ENV = {"LC_ALL": "C.UTF-8", "TZ": "UTC", "PATH": "/usr/bin:/bin", "ASAN_OPTIONS": "detect_leaks=0"}


# ---------------------------------------------------------------------------------------------- attribute handlers
def gen_attr_history(rnd, hid, races=False):
    ops = []
    live = {}          # handler -> kind
    nproc = rnd.randint(1, 4)
    for p in range(nproc):
        ops.append({"op": "setapp", "org": rnd.choice(ORGS), "name": rnd.choice(NAMES), "ver": rnd.choice(VERS)})
        for _ in range(rnd.randint(1, 8)):
            k = rnd.choice(["setapp", "info", "uuid", "uuid", "uuid", "sys", "msg", "msg", "msg", "drop"] + (["race", "race"] if races else []))
            free = [h for h in (1, 2, 3, 4) if h not in live]
            if k == "setapp":
                ops.append({"op": "setapp", "org": rnd.choice(ORGS), "name": rnd.choice(NAMES), "ver": rnd.choice(VERS)})
            elif k in ("info", "uuid", "sys") and free:
                h = rnd.choice(free)
                live[h] = k
                op = {"op": k, "h": h}
                if k == "uuid" and rnd.random() < 0.6:
                    op["name"] = rnd.choice(UNAMES)
                ops.append(op)
            elif k == "race" and len(free) >= 2:
                ops.append({"op": "race", "h1": free[0], "h2": free[1]})
            elif k == "msg" and live:
                ops.append({"op": "msg", "h": rnd.choice(sorted(live))})
            elif k == "drop" and live:
                h = rnd.choice(sorted(live))
                del live[h]
                ops.append({"op": "drop", "h": h})
        if p + 1 < nproc:
            wipe = [[o, n] for o in ORGS for n in NAMES if rnd.random() < 0.15]
            ops.append({"op": "restart", "wipe": wipe, "hard": rnd.random() < 0.5})
            live = {}
    return {"id": hid, "ops": ops}


def attrs_campaign(bdir, rnd, n, work, races=False):
    work.mkdir(parents=True, exist_ok=True)
    hists = [gen_attr_history(rnd, i + 1, races) for i in range(n)]
    inp = work / "env_attrs.in"
    inp.write_text("".join(json.dumps(h) + "\n" for h in hists))
    scratch = work / "env_scratch"
    scratch.mkdir(exist_ok=True)
    p = subprocess.run([str(bdir / "drv_env"), "attrs", str(inp), str(scratch)], capture_output=True, text=True,
                       timeout=900, env=ENV)
    inp.unlink()
    shutil.rmtree(scratch, ignore_errors=True)
    if p.returncode != 0:
        raise C.ToolFailure("drv_env attrs failed: " + p.stderr[-1500:])
    runs = []
    hi = -1
    uu = {}
    for line in p.stdout.splitlines():
        if not line.strip():
            continue
        e = json.loads(line)
        if e["e"] == "Reset":
            hi += 1
            uu = {}
            runs.append([{"e": "Reset"}])
            continue
        if e["e"] != "A":
            runs[-1].append(e)          # Start, ChildFailed
            continue
        op = hists[hi]["ops"][e["i"]]
        ev = {"e": "A", "op": e["op"], "h": op.get("h", 0)}
        if e["op"] == "setapp":
            ev.update(id=op["org"] + "/" + op["name"], name=op["name"], ver=op["ver"])
        elif e["op"] == "uuid" or (e["op"] == "msg" and len(e["attrs"]) == 1):
            s = e["attrs"][0][1]
            ev.update(attrs=e["attrs"], u=uu.setdefault(s, len(uu) + 1), uu=[ord(c) for c in s],
                      name=op.get("name", "app_uuid"), want=[])
        elif e["op"] == "race":
            # renaming of the UUID strings: new ones are numbered in the order they must have been generated - the one the
            # settings hold afterwards was written last
            u1s, u2s, st = e["uuids"][0], e["uuids"][1], e["stored"]
            order = [u1s, u2s] if st != u1s else [u2s, u1s]
            for x in order:
                uu.setdefault(x, len(uu) + 1)
            for _ in range(4):
                runs[-1].append({"e": "A", "op": "rstep", "h": 0, "h1": op["h1"], "h2": op["h2"]})
            runs[-1].append({"e": "A", "op": "rend", "h": 0, "h1": op["h1"], "h2": op["h2"], "u1": uu[u1s], "u2": uu[u2s],
                             "stored": uu.get(st, -1), "uu1": [ord(c) for c in u1s], "uu2": [ord(c) for c in u2s],
                             "raced": u1s != u2s})
            continue
        elif e["op"] == "sys":
            pending_want = [e["want"][k] for k in SYSKEYS]
            runs[-1].append(dict(ev, want=pending_want))
            runs[-1][-1]["_syswant"] = pending_want
            continue
        elif e["op"] == "msg":
            ev.update(attrs=e["attrs"], u=0, want=[])
        elif e["op"] == "restart":
            ev.update(wipe=[w[0] + "/" + w[1] for w in op["wipe"]], hard=op["hard"])
        runs[-1].append(ev)
    # a sys handler's answer is compared with what QSysInfo said when the handler was built
    for r in runs:
        want = {}
        for ev in r:
            if ev.get("op") == "sys":
                want[ev["h"]] = ev.pop("_syswant")
            elif ev.get("op") == "msg" and ev["h"] in want and len(ev.get("attrs", [])) != 1:
                ev["want"] = want[ev["h"]]
            elif ev.get("op") in ("drop", "restart"):
                if ev.get("op") == "restart":
                    want = {}
                else:
                    want.pop(ev["h"], None)
    accepted, failures = C.validate_runs("Trace_Env", "Trace_Env_race.cfg" if races else "Trace_Env.cfg", runs, work, "env", chunk=200)
    info = {"histories": len(runs), "steps": sum(len(r) - 1 for r in runs),
            "processes": sum(1 for r in runs for e in r if e["e"] == "Start"),
            "uuid_handlers": sum(1 for r in runs for e in r if e.get("op") == "uuid"),
            "simultaneous_constructions": sum(1 for r in runs for e in r if e.get("op") == "rend"),
            "simultaneous_constructions_that_showed_two_uuids": sum(1 for r in runs for e in r if e.get("op") == "rend" and e["raced"]),
            "restarts_with_wipe": sum(1 for r in runs for e in r if e.get("op") == "restart" and e["wipe"])}
    return accepted, failures, info


# ---------------------------------------------------------------------------------------------- line sinks
TEXT_POOL = ["", "a", "hello world", "tab\there", "two\nlines", "café", "日本語", "\U0001F600 ok", "100% {x}",
             "trailing \r", "x" * 300, " sep", " lead", "\x1b[31mred\x1b[0m"]
CAT_POOL = ["default", "default", "net", "app.core", "Default", "defaults", "café", ""]
IDENT_POOL = ["myapp", "x", "", "app with blanks", "café"]


def units(s):
    b = s.encode("utf-16-le")
    return [b[i] | (b[i + 1] << 8) for i in range(0, len(b), 2)]


def gen_sink_history(rnd, hid):
    ops = []
    kind = {}
    for _ in range(rnd.randint(2, 14)):
        k = rnd.choice(["newio", "setdev", "sendio", "sendio", "sendio", "opensys", "sendsys", "sendsys", "closesys"])
        free = [s for s in (1, 2, 3, 4) if s not in kind]
        ios = [s for s in kind if kind[s] == "io"]
        syss = [s for s in kind if kind[s] == "sys"]
        msg = lambda: {"type": rnd.randrange(5), "cat": rnd.choice(CAT_POOL), "text": units(rnd.choice(TEXT_POOL)),
                       "fmt": None if rnd.random() < 0.4 else units(rnd.choice(TEXT_POOL))}
        if k == "newio" and free:
            s = rnd.choice(free)
            kind[s] = "io"
            ops.append({"op": "newio", "s": s, "d": rnd.choice([0, 1, 1, 2, 3])})
        elif k == "setdev" and ios:
            ops.append({"op": "setdev", "s": rnd.choice(ios), "d": rnd.choice([0, 1, 2, 3])})
        elif k == "sendio" and ios:
            ops.append({"op": "sendio", "s": rnd.choice(ios), "m": msg()})
        elif k == "opensys" and free:
            s = rnd.choice(free)
            kind[s] = "sys"
            ops.append({"op": "opensys", "s": s, "ident": rnd.choice(IDENT_POOL)})
        elif k == "sendsys" and syss:
            ops.append({"op": "sendsys", "s": rnd.choice(syss), "m": msg()})
        elif k == "closesys" and syss:
            s = rnd.choice(syss)
            del kind[s]
            ops.append({"op": "closesys", "s": s})
    return {"id": hid, "ops": ops}


def sinks_campaign(bdir, rnd, n, work):
    """Returns (accepted, failures, info).  info['ident_pointer'] says which of the two configurations accepted the
    runs: 'kept' (the ident string outlives the constructor) or 'dangling' (today's code: openlog is given a temporary)."""
    work.mkdir(parents=True, exist_ok=True)
    hists = [gen_sink_history(rnd, i + 1) for i in range(n)]
    inp = work / "env_sinks.in"
    inp.write_text("".join(json.dumps(h) + "\n" for h in hists))
    p = subprocess.run([str(bdir / "drv_env"), "sinks", str(inp)], capture_output=True, text=True, timeout=900, env=ENV)
    inp.unlink()
    if p.returncode != 0:
        raise C.ToolFailure("drv_env sinks failed: " + p.stderr[-1500:])
    runs = []
    hi = -1
    oi = 0
    for line in p.stdout.splitlines():
        if not line.strip():
            continue
        e = json.loads(line)
        if e["e"] == "Reset":
            hi += 1
            oi = 0
            runs.append([{"e": "Reset"}])
            continue
        op = hists[hi]["ops"][oi]
        oi += 1
        ev = {"e": "S", "op": e["op"], "s": e["s"], "devs": e["devs"], "calls": e["calls"], "d": op.get("d", 0),
              "ident": units(op.get("ident", "")), "m": {"type": 0, "cat": [], "text": [], "fmt": [-1]}}
        if "m" in op:
            m = op["m"]
            ev["m"] = {"type": m["type"], "cat": units(m["cat"]), "text": m["text"], "fmt": [-1] if m["fmt"] is None else m["fmt"]}
        runs[-1].append(ev)
    info = {"histories": len(runs), "steps": sum(len(r) - 1 for r in runs),
            "syslog_records": sum(1 for r in runs for e in r if e.get("op") == "sendsys"),
            "device_writes": sum(1 for r in runs for e in r if e.get("op") == "sendio")}
    accepted, failures = C.validate_runs("Trace_LineSinks", "Trace_LineSinks_keeps.cfg", runs, work, "lsk", chunk=200, max_failures=3)
    info["ident_pointer"] = "kept"
    if failures:
        accepted, failures = C.validate_runs("Trace_LineSinks", "Trace_LineSinks.cfg", runs, work, "lst", chunk=200)
        info["ident_pointer"] = "dangling"
    return accepted, failures, info
