"""C13 (JSON formatter) and C18 (Sentry formatter): spec/QtlJson.tla.

Generated messages are formatted by the real formatters; the projection parses the output with Python's json module
(an independent parser: syntactic validity, unescaping, "exactly one value") into the abstract JSON values of the
module; TLC checks JsonObligations / SentryObligations (and the freshness of Sentry event ids over the whole trace)."""
import base64
import datetime
import json
import random
import subprocess
import time

from . import common as C

TYPES = ["debug", "info", "warning", "critical", "fatal"]
TEXT_POOL = ([ord(c) for c in "abc XYZ019\"\\/{}[]:,'<>&%\t\n\r"] + [0, 1, 0x1F, 0x7F, 0x85, 0xE9, 0x416, 0x4E2D, 0x2028, 0x2029, 0x200B, 0xFEFF, 0xFFFD])
ASTRAL = [[0xD83D, 0xDE42], [0xD835, 0xDC00], [0xDBFF, 0xDFFF]]
ASCII_PRINT = [c for c in range(0x20, 0x7F)]
BUILTIN = ["type", "line", "file", "function", "category", "message", "time", "threadId"]
ROUTED = ["appname", "appversion", "os_name", "os_version", "kernel_version", "build_abi", "cpu_arch", "host_name"]
NAMES = ["user", "seq_number", "k1", "a.b", "x y", "Имя", "名前", "", "extra", "tags", "line ", "File", "thread_id", "level", "event_id",
         "q\"uote", "back\\slash", "nl\nname"]


def u(s):
    out = []
    for ch in s:
        o = ord(ch)
        if o > 0xFFFF:
            o -= 0x10000
            out += [0xD800 + (o >> 10), 0xDC00 + (o & 0x3FF)]
        else:
            out.append(o)
    return out


def units_of_pystr(s):
    return u(s)


def rand_text(rnd, lo, hi, pool=TEXT_POOL, astral=True):
    n = rnd.randint(lo, hi)
    out = []
    while len(out) < n:
        if astral and rnd.random() < 0.06 and n - len(out) >= 2:
            out += rnd.choice(ASTRAL)
        else:
            out.append(rnd.choice(pool))
    return out


def rand_value(rnd, depth=0):
    x = rnd.random()
    if x < 0.08:
        return {"t": "s", "v": u(rnd.choice(["42", "007", "1", "0", "4217"]))}
    if x < 0.45 or depth >= 2:
        return {"t": "s", "v": rand_text(rnd, 0, 12)}
    if x < 0.65:
        n = rnd.choice([0, 1, -1, 42, 2 ** 31, -2 ** 31 - 1, 2 ** 53, -2 ** 53, 2 ** 53 - 1, 123456789012])
        return {"t": "n", "v": str(n)}
    if x < 0.70:
        return {"t": "n", "v": rnd.choice(["0.5", "-2.25", "1e-3", "3.75"])}
    if x < 0.80:
        return {"t": "b", "v": rnd.random() < 0.5}
    if x < 0.90:
        return {"t": "a", "v": [rand_value(rnd, depth + 1) for _ in range(rnd.randint(0, 3))]}
    keys = rnd.sample(["a", "b", "k\"q", "ü", "", "n\n"], rnd.randint(0, 3))
    return {"t": "o", "v": sorted(({"k": u(k), "v": rand_value(rnd, depth + 1)} for k in keys), key=lambda p: p["k"])}


def canon_number(text):
    """how the independent parser will present this number: integral values as integer text"""
    try:
        return str(int(text))
    except ValueError:
        f = float(text)
        return str(int(f)) if f.is_integer() and abs(f) < 1e17 else repr(f)


def canon(v):
    """the abstract value a correct formatter must produce for attribute value v"""
    t = v["t"]
    if t == "s":
        return {"t": "s", "v": v["v"]}
    if t == "n":
        return {"t": "n", "v": u(canon_number(v["v"]))}
    if t == "b":
        return {"t": "b", "v": v["v"]}
    if t == "a":
        return {"t": "a", "v": [canon(x) for x in v["v"]]}
    return {"t": "o", "v": [{"k": p["k"], "v": canon(p["v"])} for p in sorted(v["v"], key=lambda p: p["k"])]}


def abstract(j):
    """parsed python value -> abstract JSON value"""
    if isinstance(j, str):
        return {"t": "s", "v": u(j)}
    if isinstance(j, bool):
        return {"t": "b", "v": j}
    if isinstance(j, int):
        return {"t": "n", "v": u(str(j))}
    if isinstance(j, float):
        return {"t": "n", "v": u(str(int(j)) if j.is_integer() and abs(j) < 1e17 else repr(j))}
    if j is None:
        return {"t": "z"}
    if isinstance(j, list):
        return {"t": "a", "v": [abstract(x) for x in j]}
    return {"t": "o", "v": pairs(j)}


def pairs(d):
    return sorted(({"k": u(k), "v": abstract(v)} for k, v in d.items()), key=lambda p: p["k"])


class DupKeys(Exception):
    pass


def parse_one(raw):
    """exactly one JSON value (duplicate keys are reported, surrogates are kept as they are)"""
    def hook(items):
        keys = [k for k, _ in items]
        if len(keys) != len(set(keys)):
            raise DupKeys()
        return dict(items)
    try:
        text = raw.decode("utf-8", errors="surrogatepass")
        return json.loads(text, object_pairs_hook=hook), True
    except (ValueError, DupKeys):
        return None, False


class Case:
    def __init__(self, cid, rnd, mode):
        self.id = cid
        self.mode = mode
        self.type = rnd.choice(TYPES)
        self.text = rand_text(rnd, 0, 60)
        if mode == "sentry" and rnd.random() < 0.3:
            self.text = rand_text(rnd, 95, 140, astral=False)        # around the 100-unit fingerprint limit
        self.nullctx = rnd.random() < 0.1
        self.cat = [] if self.nullctx else rnd.choice([u("default"), u("default"), [], rand_text(rnd, 1, 10, ASCII_PRINT, False)])
        self.file = [] if self.nullctx else rand_text(rnd, 0, 16, ASCII_PRINT, False)
        self.func = [] if self.nullctx else rand_text(rnd, 0, 24, ASCII_PRINT, False)
        self.line = rnd.choice([0, 1, 42, 65535, 2147483647])
        # an earlier formatter of the same (unscoped) pipeline may have set the formatted text already
        self.prefmt = rand_text(rnd, 1, 20) if rnd.random() < 0.3 else None
        self.attrs = {}
        names = list(NAMES) + (ROUTED if mode == "sentry" else [])
        for name in rnd.sample(names, rnd.randint(0, 5)):
            if name in BUILTIN:
                continue
            if name in ROUTED:
                # slots hold text; numbers and booleans must survive as their usual text (or as themselves)
                x = rnd.random()
                if x < 0.7:
                    self.attrs[name] = {"t": "s", "v": rand_text(rnd, 0, 10)}
                elif x < 0.9:
                    self.attrs[name] = {"t": "n", "v": str(rnd.choice([0, 7, 4217, 64, -1, 2 ** 31]))}
                else:
                    self.attrs[name] = {"t": "b", "v": rnd.random() < 0.5}
            else:
                self.attrs[name] = rand_value(rnd)

    def to_json(self):
        return {"id": self.id, "mode": self.mode, "type": self.type, "text": self.text, "cat": self.cat, "file": self.file,
                "func": self.func, "line": self.line, "nullctx": self.nullctx, "prefmt": self.prefmt if self.prefmt is not None else [],
                "hasprefmt": self.prefmt is not None,
                "attrs": [{"k": u(k), "v": v} for k, v in self.attrs.items()]}

    def msg(self):
        return {"type": self.type, "text": self.text, "cat": self.cat, "file": self.file, "func": self.func, "line": self.line,
                "attrs": sorted(({"k": u(k), "v": canon(v)} for k, v in self.attrs.items()), key=lambda p: p["k"])}

    def event(self, out):
        raw = base64.b64decode(out["b64"])
        j, ok = parse_one(raw)
        if self.mode != "sentry":
            o = {"ok": ok and isinstance(j, dict), "top": pairs(j) if isinstance(j, dict) else [], "nl": raw.count(b"\n") + raw.count(b"\r")}
            if self.mode == "indented":
                pass
            return {"e": "Json", "id": self.id, "msg": self.msg(), "compact": self.mode == "compact", "out": o}
        ms = int(out["ms"])
        t = datetime.datetime.fromtimestamp(ms // 1000, tz=datetime.timezone.utc)
        good = ok and isinstance(j, dict)

        def obj(x):
            return pairs(x) if isinstance(x, dict) else []
        e = {"ok": False, "id": [], "ts": [], "level": [], "haslogger": False, "logger": {"t": "z"}, "formatted": {"t": "z"}, "fp": [],
             "tags": [], "extra": [], "os": [], "device": []}
        if good:
            ctx = j.get("contexts") if isinstance(j.get("contexts"), dict) else {}
            m = j.get("message") if isinstance(j.get("message"), dict) else {}
            e = {"ok": True,
                 "id": u(j["event_id"]) if isinstance(j.get("event_id"), str) else [],
                 "ts": u(j["timestamp"]) if isinstance(j.get("timestamp"), str) else [],
                 "level": u(j["level"]) if isinstance(j.get("level"), str) else [],
                 "haslogger": "logger" in j, "logger": abstract(j.get("logger")),
                 "formatted": abstract(m.get("formatted")),
                 "fp": [abstract(x) for x in j.get("fingerprint", [])] if isinstance(j.get("fingerprint"), list) else [],
                 "tags": obj(j.get("tags")), "extra": obj(j.get("extra")), "os": obj(ctx.get("os")), "device": obj(ctx.get("device"))}
            # tags / extra hold entries of the formatter's own besides the attributes; the obligations only look up names
        return {"e": "Sentry", "id": self.id, "msg": self.msg(), "utc": [t.year, t.month, t.day, t.hour, t.minute, t.second], "out": e}


def loose_twin(v, rnd):
    """a value that QVariant::operator== may call equal to v although it is a different value or type"""
    t = v["t"]
    if t == "n":
        try:
            return {"t": "s", "v": u(str(int(v["v"])))}
        except ValueError:
            return {"t": "s", "v": u(v["v"])}
    if t == "b":
        return {"t": "n", "v": "1" if v["v"] else "0"}
    if t == "s":
        txt = "".join(chr(x) for x in v["v"]) if all(x < 0xD800 for x in v["v"]) else ""
        if txt.isdigit() and len(txt) < 9:
            return {"t": "n", "v": str(int(txt))}
        return {"t": "s", "v": v["v"]}
    return v


def twin_of(case, cid, rnd):
    """the next message through the same formatter: same attribute names, loosely equal values"""
    c = Case(cid, rnd, case.mode)
    c.attrs = {k: loose_twin(v, rnd) for k, v in case.attrs.items()}
    return c


def run_driver(bdir, cases, work, tag, tz):
    work.mkdir(parents=True, exist_ok=True)
    inp = work / f"{tag}.cases"
    with open(inp, "w") as f:
        for c in cases:
            f.write(json.dumps(c.to_json(), separators=(",", ":")) + "\n")
    p = subprocess.run([str(bdir / "drv_json"), str(inp)], capture_output=True, text=True, timeout=900,
                       env={"LC_ALL": "C.UTF-8", "TZ": tz, "PATH": "/usr/bin:/bin"})
    inp.unlink()
    if p.returncode != 0:
        return None, p.stderr[-3000:]
    return {json.loads(l)["id"]: json.loads(l) for l in p.stdout.splitlines() if l.strip()}, None


def sentry_url_campaign(bdir, rnd, n, work):
    """sentry.h beyond the list: sentryUrl() in its spellings (QtlJson!SentryUrl), as NOTE lines of C18"""
    hosts = ["sentry.io", "o12345.ingest.sentry.io", "sentry.example.org", "localhost"]
    cases = [{"host": rnd.choice(hosts), "project": str(rnd.choice([1, 42, 4505123456789])),
              "key": "".join(rnd.choice("0123456789abcdef") for _ in range(rnd.choice([8, 32])))} for _ in range(n)]
    inp = work / "urls.ndjson"
    work.mkdir(parents=True, exist_ok=True)
    inp.write_text("".join(json.dumps(c) + "\n" for c in cases))
    p = subprocess.run([str(bdir / "drv_json"), "url", str(inp)], capture_output=True, text=True, timeout=300,
                       env={"LC_ALL": "C.UTF-8", "PATH": "/usr/bin:/bin"})
    inp.unlink()
    if p.returncode != 0:
        return 0, [{"error": p.stderr[-500:]}], n
    events = [json.loads(l) for l in p.stdout.splitlines() if l.strip()]
    acc, rej = validate(events, work, "urls")
    return acc, rej, n


def validate(events, work, tag, chunk=1500):
    accepted = 0
    rejected = []
    pos = 0
    n = 0
    while pos < len(events):
        part = events[pos:pos + chunk]
        pos += chunk
        while part:
            n += 1
            tp = C.write_ndjson(work / f"{tag}.{n}.ndjson", part)
            ok, matched, res = C.validate_trace("Trace_Json", "Trace_Json.cfg", tp, len(part), timeout=1500)
            tp.unlink()
            if ok:
                accepted += len(part)
                break
            accepted += matched
            rejected.append(part[matched])
            part = part[matched + 1:]
            if len(rejected) >= 40:
                return accepted, rejected
    return accepted, rejected


def run(pid, tier, seed):
    t0 = time.time()
    mc = C.run_tlc("MC_Json", "MC_Json.cfg", timeout=900, workers=4)
    if mc.error or mc.violation:
        raise C.ToolFailure(f"QtlJson fails its own sanity assumptions ({mc.violation}):\n{(mc.error or mc.out)[-3000:]}")
    bdir = C.ensure_harness("asan", ["drv_json"])
    work = C.BUILD / "work" / pid
    rnd = random.Random(seed * 69621 + int(pid[1:]))
    n = 1500 if tier == "quick" else 40000
    cases = []
    for i in range(n):
        mode = "sentry" if pid == "C18" else rnd.choice(["compact", "compact", "indented"])
        if cases and rnd.random() < 0.2 and cases[-1].attrs:
            cases.append(twin_of(cases[-1], i + 1, rnd))     # formatters are objects with a life across messages
        else:
            cases.append(Case(i + 1, rnd, mode))
    viol = 0
    events = []
    for tz, part in (("UTC", cases[: n // 2]), ("Asia/Kolkata", cases[n // 2:])):
        outs, crash = run_driver(bdir, part, work, f"c{seed}{tz[:3]}", tz)
        if outs is None:
            rp = C.save_replay(pid, f"crash_{seed}.json", {"kind": "driver-crash", "stderr": crash})
            C.report_violation(pid, rp)
            viol += 1
            continue
        events += [c.event(outs[c.id]) for c in part]
    accepted, rejected = validate(events, work, f"v{seed}")
    by_id = {c.id: c for c in cases}
    for ev in rejected:
        c = by_id[ev["id"]]
        rp = C.save_replay(pid, f"case_{seed}_{c.id}.json", {"kind": "obligation-violated", "case": c.to_json(), "parsed_output": ev["out"]})
        C.report_violation(pid, rp)
        viol += 1
    url_info = None
    if pid == "C18":
        try:
            u_acc, u_rej, u_n = sentry_url_campaign(bdir, rnd, 40 if tier == "quick" else 2000, work)
            url_info = {"cases": u_n, "accepted": u_acc, "rejected": len(u_rej)}
            if u_rej:
                print(f"NOTE property=C18 sentry.h: {len(u_rej)} of {u_n} endpoint cases rejected by QtlJson!SentryUrl (first: {str(u_rej[0])[:300]})", flush=True)
        except C.ToolFailure as e:
            print("NOTE property=C18 sentry.h conformance could not run: " + str(e)[:300], flush=True)
        # ... and the sink they leave the process through (spec/QtlHttp.tla; a collector on the loopback interface)
        try:
            from . import http_spec
            h_acc, h_fail, h_info = http_spec.campaign(rnd, 12 if tier == "quick" else 400, C.BUILD / "work" / "http")
            url_info["http_sink (spec/QtlHttp.tla)"] = dict(h_info, accepted_runs=h_acc, rejected_runs=len(h_fail))
            if h_fail:
                print(f"NOTE property=C18 the HttpSink machine (spec/QtlHttp.tla) rejected {len(h_fail)} of {h_info['runs']} runs "
                      f"(first: event {str(h_fail[0]['event'])[:200]})", flush=True)
        except (C.ToolFailure, subprocess.TimeoutExpired) as e:
            print("NOTE property=C18 HttpSink conformance could not run: " + str(e)[:300], flush=True)
    kinds = {}
    nontrivial = 0
    for c in cases:
        ts = {v["t"] for v in c.attrs.values()}
        for t in ts:
            kinds[t] = kinds.get(t, 0) + 1
        special = any(x in (0, 1, 10, 13, 34, 92, 0x2028, 0x2029) or x >= 0xD800 for x in c.text)
        if special or c.attrs:
            nontrivial += 1
    C.write_evidence(pid, tier, seed, "model_checking", {
        "states": mc.distinct, "transitions": mc.generated,
        "traces_validated_against_impl": accepted,
        "samples": [c.to_json() for c in cases[:2]],
        "evaluations": len(cases), "distinct_nontrivial": nontrivial,
        "rule": ("seeded messages: texts over a pool with NUL, control characters, quotes, backslashes, CR/LF, U+2028/2029, surrogate "
                 "pairs; categories/files/functions over printable ASCII or null pointers; custom attributes of kinds string / number up "
                 "to +-2^53 / bool / list / map with awkward names; " +
                 ("compact and indented mode" if pid == "C13" else
                  "all eight specially-routed attribute names and names colliding with the formatter's own keys, messages around the "
                  "100-unit fingerprint limit, two time zones, event-id freshness over the whole run") +
                 "; non-trivial = the text contains characters that need escaping or the message has custom attributes"),
        "exhaustive": False,
        "attribute_kind_histogram": kinds, "rejected_cases": len(rejected),
        "beyond_the_list": {"sentry.h endpoint and headers (QtlJson!SentryUrl)": url_info},
    }, time.time() - t0, viol, [
        "TLC and the Json/IOUtils community modules are trusted",
        "syntactic validity and unescaping are decided by Python's json module (the projection), not by TLA+",
        "attribute names that shadow a built-in field are not generated; specially-routed Sentry attributes carry strings, integers or booleans (a non-string is accepted in its slot as itself or as its usual text); no surrogate "
        "pair straddles the 100th code unit",
    ])
    return 1 if viol else 0


def replay(pid, path):
    payload = json.loads(open(path).read())
    print(json.dumps(payload.get("case"))[:2000])
    print("re-run the campaign to reproduce: ./check %s quick" % pid)
    return 2
