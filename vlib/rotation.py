"""Scenario generation, driver invocation and projection for spec/QtlRotation.tla (C05-C10, C11 file half).

The generator only *chooses inputs* (record sizes, days, restarts, options, crash points, faults); what the
sink must do with them is decided by the TLA+ module.  The projection turns the raw directory listings of
harness/drv_rotation into abstract files: names are parsed by the documented scheme, plain content is split
into the records that were sent (byte-exact, each followed by exactly one newline), compressed content is
decoded by two independent decoders (python zlib in gzip mode + own trailer check; GNU gzip -t)."""
import base64
import datetime
import json
import random
import re
import subprocess
import zlib
from pathlib import Path

from . import common as C

DAY0 = datetime.datetime(2024, 5, 10, tzinfo=datetime.timezone.utc)
DAY0_MS = int(DAY0.timestamp() * 1000)
MSDAY = 86400000
NONE = [9, 0, 0, 0]
ACTIVE = [0, 0, 0, 0]

FILE_NAMES = ["app.log", "app.log", "app.log", "app", "my.app.log", "a+b(1).log", "srv[2].txt", "x.y.z", ".app.log", ".hidden"]
FOREIGN_TEMPLATES = ["{b}.2024-05-11.1.{s}.bak", "{b}2.2024-05-11.1.{s}", "{b}x2024-05-11.1.{s}", "{b}.2024-5-11.1.{s}",
                     "{b}.2024-05-11.x.{s}", "{b}.2024-05-11.1.{s}.gz.tmp", "{b}.{s}.1", "other.txt",
                     "{b}.2024-05-11.{s}", "X{b}.2024-05-11.2.{s}"]


def t_of(ms):
    rel = ms - DAY0_MS
    return [rel // MSDAY, rel % MSDAY]


def ms_of(d, k):
    return DAY0_MS + d * MSDAY + k


def b64(b):
    return base64.b64encode(b).decode()


def split_name(fname):
    """QFileInfo::completeBaseName / suffix"""
    if "." in fname:
        base, suf = fname.rsplit(".", 1)
        return base, suf
    return fname, ""


def rotated_name(fname, day, idx, gz=False):
    base, suf = split_name(fname)
    date = (DAY0 + datetime.timedelta(days=day)).strftime("%Y-%m-%d")
    n = f"{base}.{date}.{idx}" + (f".{suf}" if suf else "") + (".gz" if gz else "")
    return n


class Scenario:
    def __init__(self, sid, fname="app.log", kind="rot", L=0, N=0, opts=0, now=(2, 0)):
        self.id = sid
        self.file = fname
        self.kind = kind
        self.L, self.N, self.opts = L, N, opts
        self.now0 = list(now)
        self.plants = []            # dict(name, bytes, mt=(d,k), recs=[ids] or None)
        self.ops = []
        self.crash = None
        self.fault = None
        self.resume_now = None
        self.payload = {}           # rec id -> bytes (without the newline)
        self.rday = {}
        self.nrec = 0
        self.planted_hist = []
        self.tags = set()

    # -- building -------------------------------------------------------------------------------
    def new_rec(self, rnd, target_len, day, fancy=True):
        """a self-describing payload whose record (payload + newline) has target_len bytes if possible"""
        self.nrec += 1
        rid = self.nrec
        head = f"r{rid}:".encode()
        want = max(target_len - 1 - len(head), 0)
        filler = bytearray()
        while len(filler) < want:
            room = want - len(filler)
            x = rnd.random() if fancy else 1.0
            if x < 0.04 and room >= 4:
                filler += "\U0001F600".encode()
            elif x < 0.08 and room >= 3:
                filler += "€".encode()
            elif x < 0.14 and room >= 2:
                filler += "é".encode()
            elif x < 0.16:
                filler += b"\n"
            elif x < 0.18:
                filler += b" "
            elif x < 0.20:
                filler += b"\r"                 # carriage returns are bytes like any other (files are opened in Text mode)
            else:
                filler += bytes([rnd.choice(b"abcdefghijklmnopqrstuvwxyz0123456789%{}\r")])
        self.payload[rid] = bytes(head + filler)
        self.rday[rid] = day
        return rid

    def rec_len(self, rid):
        return len(self.payload[rid]) + 1

    def plant_log(self, rnd, name, rec_lens, day, mt, gz=False):
        recs = [self.new_rec(rnd, n, day) for n in rec_lens]
        data = b"".join(self.payload[r] + b"\n" for r in recs)
        if gz:
            import gzip
            data = gzip.compress(data, mtime=0)
        self.plants.append({"name": name, "bytes": data, "mt": list(mt), "recs": recs})
        self.planted_hist += recs
        return recs

    def plant_foreign(self, name, data, mt):
        self.plants.append({"name": name, "bytes": data, "mt": list(mt), "recs": None})

    def plant_dir(self, name):
        self.plants.append({"name": name, "bytes": b"", "mt": [0, 0], "recs": None, "dir": True})

    def to_dict(self):
        return {"id": self.id, "file": self.file, "kind": self.kind, "L": self.L, "N": self.N, "opts": self.opts,
                "now0": self.now0, "ops": self.ops, "crash": self.crash, "fault": self.fault, "resume_now": self.resume_now,
                "plants": [{"name": p["name"], "b64": b64(p["bytes"]), "mt": p["mt"], "recs": p["recs"], "dir": bool(p.get("dir"))}
                           for p in self.plants],
                "payload": {str(k): b64(v) for k, v in self.payload.items()}, "rday": {str(k): v for k, v in self.rday.items()},
                "nrec": self.nrec, "planted_hist": self.planted_hist, "tags": sorted(self.tags)}

    @staticmethod
    def from_dict(d):
        s = Scenario(d["id"], d["file"], d["kind"], d["L"], d["N"], d["opts"], tuple(d["now0"]))
        s.ops, s.crash, s.fault, s.resume_now = d["ops"], d["crash"], d["fault"], d["resume_now"]
        s.plants = [{"name": p["name"], "bytes": base64.b64decode(p["b64"]), "mt": p["mt"], "recs": p["recs"], "dir": p.get("dir")}
                    for p in d["plants"]]
        s.payload = {int(k): base64.b64decode(v) for k, v in d["payload"].items()}
        s.rday = {int(k): v for k, v in d["rday"].items()}
        s.nrec, s.planted_hist, s.tags = d["nrec"], d["planted_hist"], set(d["tags"])
        return s

    def to_json(self, root):
        d = {"id": self.id, "root": str(root), "file": self.file, "kind": self.kind, "L": self.L, "N": self.N,
             "opts": self.opts, "now": ms_of(*self.now0),
             "plants": [{"name": p["name"], "b64": b64(p["bytes"]), "mt": ms_of(*p["mt"]), "dir": bool(p.get("dir"))}
                        for p in self.plants],
             "ops": self.ops}
        if self.crash:
            d["crash"] = self.crash
            d["resume_now"] = ms_of(*self.resume_now)
        if self.fault:
            d["fault"] = self.fault
        return d


# ------------------------------------------------------------------------------------------------
# random histories
# ------------------------------------------------------------------------------------------------

def size_choices(L, minlen):
    if L > 0:
        c = [minlen, L - 2, L - 1, L, L + 1, L + 2, L // 2, L // 2 + 1, L // 3, 2 * L + 3]
    else:
        c = [minlen, 8, 9, 12, 17, 25, 40]
    return [max(x, minlen) for x in c]


class HistoryGen:
    """appends ops to a Scenario while tracking just enough to respect the environment rules"""

    def __init__(self, rnd, scn):
        self.rnd, self.s = rnd, scn
        self.now = list(scn.now0)
        self.alive = False
        self.must_send = False
        self.tz = 0

    def op_zone(self, z):
        """the local date jumps by whole days (z = offset of the new zone in days) while time goes on"""
        d, k = self.now
        self.now = [d, k + 1]
        self.tz = z
        self.s.ops.append({"op": "zone", "z": z, "ms": ms_of(d, k + 1)})

    def op_now(self, d, k):
        assert (d, k) >= tuple(self.now)
        day_changed = d != self.now[0]
        self.now = [d, k]
        self.s.ops.append({"op": "now", "ms": ms_of(d, k)})
        if day_changed and self.alive:
            self.must_send = True

    def op_ctor(self):
        self.s.ops.append({"op": "ctor"})
        self.alive = True

    def op_send(self, target_len, fancy=True):
        rid = self.s.new_rec(self.rnd, target_len, self.now[0] + self.tz, fancy)
        self.s.ops.append({"op": "send", "b64": b64(self.s.payload[rid]), "rec": rid})
        self.must_send = False
        return rid

    def op_flush(self):
        self.s.ops.append({"op": "flush"})

    def op_destroy(self):
        self.s.ops.append({"op": "destroy"})
        self.alive = False

    def step(self, weights):
        r, s = self.rnd, self.s
        minlen = len(f"r{s.nrec + 1}:") + 1
        if not self.alive:
            if r.random() < 0.35:
                self.advance(weights)
            self.op_ctor()
            return
        if self.must_send:
            self.op_send(r.choice(size_choices(s.L, minlen)))
            return
        x = r.random()
        if x < weights.get("send", 0.62):
            self.op_send(r.choice(size_choices(s.L, minlen)))
        elif x < weights.get("send", 0.62) + weights.get("time", 0.18):
            self.advance(weights)
        elif x < 0.88:
            self.op_flush()
        else:
            self.op_destroy()

    def advance(self, weights):
        r = self.rnd
        d, k = self.now
        if r.random() < weights.get("day", 0.4):
            self.op_now(d + r.choice([1, 1, 1, 2]), r.choice([0, 0, 3, 1000]))
        else:
            self.op_now(d, k + r.choice([1, 1, 2, 1000]))


def gen_history(rnd, sid, focus, n_ops=None):
    fname = rnd.choice(FILE_NAMES)
    base, suf = split_name(fname)
    L = rnd.choice([0, 12, 16, 20, 20, 30, 30, 64, 100])
    N = rnd.choice([0, 1, 2, 2, 3, 3, 4, -1])
    opts = rnd.randrange(8)
    weights = {}
    if focus == "C06":
        L = rnd.choice([12, 16, 20, 30])
        N = rnd.choice([0, 1, 2, 2, 3, 3, 4, 5, -1])
        weights = {"send": 0.78, "time": 0.08, "day": 0.25}
    elif focus == "C07":
        L = rnd.choice([9, 12, 16, 20, 30, 64])
        N = rnd.choice([0, 2, 3, 4, -1, 1])
    elif focus == "C08":
        opts |= 4
        N = rnd.choice([0, 2, 3, 4, -1])
        L = rnd.choice([16, 20, 30, 64, 100])
    elif focus == "C09":
        opts |= 2
        N = rnd.choice([0, 2, 2, 3, 4, -1, 1])
        weights = {"send": 0.55, "time": 0.27, "day": 0.6}
    # rotated files of *today* whose modification times do not follow their indices (a directory restored file by
    # file, a clock that was set back): only without a retention limit, where nothing depends on those times
    shuffled = N <= 0 and L > 0 and rnd.random() < 0.3
    s = Scenario(sid, fname, "rot", L, N, opts, now=(2, 500 if shuffled else rnd.choice([0, 7, 500])))
    # what an earlier life of the same sink may have left behind (within the configured limits), plus
    # files that only look similar
    minlen = 8
    if shuffled:
        k = rnd.randint(2, 4)
        mts = rnd.sample(range(10, 400, 10), k)
        for j in range(k):
            s.plant_log(rnd, rotated_name(fname, 2, j + 1, gz=bool(opts & 4) and rnd.random() < 0.5),
                        [rnd.choice(size_choices(L, minlen))], 2, (2, mts[j]), gz=False)
            if s.plants[-1]["name"].endswith(".gz"):
                import gzip
                s.plants[-1]["bytes"] = gzip.compress(s.plants[-1]["bytes"], mtime=0)
        if rnd.random() < 0.5:
            s.plant_log(rnd, fname, [rnd.choice(size_choices(L, minlen))], 2, (2, 450))
        s.tags.add("shuffled-mtimes")
    elif rnd.random() < 0.35 and N != 1:
        keep = (N - 1) if N >= 2 else 3
        for j in range(rnd.randint(0, min(keep, 2))):
            lens = [rnd.choice(size_choices(L, minlen))]
            if L > 0 and lens[0] * 2 <= L:
                lens.append(lens[0])
            s.plant_log(rnd, rotated_name(fname, 0, j + 1, gz=bool(opts & 4) and rnd.random() < 0.7), lens, 0,
                        (0, 10 + j), gz=False)
            if s.plants[-1]["name"].endswith(".gz"):
                import gzip
                s.plants[-1]["bytes"] = gzip.compress(s.plants[-1]["bytes"], mtime=0)
        if rnd.random() < 0.5:
            s.plant_log(rnd, fname, [rnd.choice(size_choices(L, minlen))], 1, (1, 40))
    for tpl in rnd.sample(FOREIGN_TEMPLATES, rnd.randint(0, 3)):
        s.plant_foreign(tpl.format(b=base, s=suf or "log"), rnd.choice([b"", b"zz\n", b"r1:abc\n"]), (0, 5))
    g = HistoryGen(rnd, s)
    n = n_ops or rnd.randint(6, 38)
    g.op_ctor()
    for _ in range(n):
        g.step(weights)
    if g.must_send:
        g.op_send(12)
    if g.alive and rnd.random() < 0.6:
        g.op_destroy()
    s.tags.add("history")
    return s


def gen_reconfigured(rnd, sid):
    """restarts with other constructor arguments than before (size limit, file count, options): only the properties
    that do not depend on a constant configuration are demanded of these histories (Trace_Rotation_reconf.cfg)"""
    s = gen_history(rnd, sid, "C05", n_ops=rnd.randint(10, 30))
    for op in s.ops:
        if op["op"] != "ctor":
            continue
        if rnd.random() < 0.8:
            op["L"] = rnd.choice([0, 12, 16, 20, 30, 64])
            op["N"] = rnd.choice([0, 1, 2, 3, 4, -1])
            op["opts"] = rnd.randrange(8)
        else:
            op["L"], op["N"], op["opts"] = s.L, s.N, s.opts
    s.tags.add("reconfigured")
    return s


def gen_bigbuf(rnd, sid):
    """QFile's 16 KiB write buffer: records around and above it, buffer filling up over several sends"""
    L = rnd.choice([0, 0, 20000, 40000, 70000])
    s = Scenario(sid, "app.log", "rot", L, rnd.choice([0, 2, 3]), rnd.choice([0, 4, 1, 2]), now=(2, 0))
    g = HistoryGen(rnd, s)
    g.op_ctor()
    for _ in range(rnd.randint(4, 14)):
        x = rnd.random()
        if x < 0.8:
            g.op_send(rnd.choice([3000, 5000, 8000, 8192, 8200, 16380, 16383, 16384, 16385, 17000, 33000, 12]), fancy=False)
        elif x < 0.9:
            g.op_flush()
        else:
            d, k = g.now
            g.op_now(d, k + 1)
    g.op_destroy()
    s.tags.add("bigbuf")
    return s


def gen_index_crossing(rnd, sid, upto=12):
    """many rotations inside one timestamp tick, index going 9 -> 10 (and beyond), small N"""
    L = 12
    s = Scenario(sid, "app.log", "rot", L, rnd.choice([2, 3, 4]), rnd.choice([0, 4, 0]), now=(2, 0))
    g = HistoryGen(rnd, s)
    g.op_ctor()
    for i in range(upto + rnd.randint(0, 3)):
        g.op_send(12, fancy=False)
        if rnd.random() < 0.1:
            d, k = g.now
            g.op_now(d, k + 1)
        if rnd.random() < 0.08:
            g.op_destroy()
            g.op_ctor()
    g.op_destroy()
    s.tags.add("index-crossing")
    return s


def gen_gz_content(rnd, sid, big):
    """C08 content campaign: what gets compressed ranges from one byte to MiBs, compressible or not"""
    s = Scenario(sid, "app.log", "rot", 0, 0, 4 | 1, now=(2, 0))      # startup rotation compresses whatever is there
    kind = "huge" if big == "only" else rnd.choice(["tiny", "lines", "random", "zeros"] + (["huge"] if big else []))
    if kind == "tiny":
        data = b"\n" * rnd.randint(1, 3)
    elif kind == "lines":
        data = b"".join(b"line %d\n" % i for i in range(rnd.randint(1, 4000)))
    elif kind == "random":
        data = rnd.randbytes(rnd.choice([1, 100, 8191, 8192, 8193, 65535, 65536, 65537, 200000]))
    elif kind == "zeros":
        data = b"\0" * rnd.choice([1, 8192, 65536, 300000])
    else:
        # beyond any plausible block size of a chunked implementation (64 KiB, 1 MiB), compressible or not
        n = rnd.choice([(1 << 20) + 1, (1 << 21) + 4097, (1 << 22) + 17])
        data = rnd.randbytes(n) if rnd.random() < 0.5 else (b"".join(b"line %d of a long day\n" % i for i in range(n // 24 + 1)))[:n]
    # the planted active file is one "record" of arbitrary bytes (it must end the record with the newline
    # the projection expects, so the planted content is payload + newline)
    s.nrec += 1
    rid = s.nrec
    head = f"r{rid}:".encode()
    s.payload[rid] = head + data
    s.rday[rid] = 1
    s.plants.append({"name": "app.log", "bytes": s.payload[rid] + b"\n", "mt": [1, 40], "recs": [rid]})
    s.planted_hist.append(rid)
    g = HistoryGen(rnd, s)
    g.op_ctor()
    g.op_send(12, fancy=False)        # first send: init -> startup rotation -> compression
    g.op_send(12, fancy=False)
    g.op_destroy()
    s.tags.add("gz-content:" + kind)
    return s


def gen_zone_history(rnd, sid, focus="C06"):
    """the local date goes BACK by a day in the middle of a history (the process moved to another time zone) while
    time itself goes on: rotated files named after the later date are the OLDER ones.  Environment rules as in
    MC_Rotation!MCZone: the sink is initialised before the change and not restarted after it, the clock moves between
    the records written after it, and the date gone back to has no rotated files yet."""
    fname = rnd.choice(["app.log", "app.log", "app", "my.app.log"])
    L = rnd.choice([12, 16, 20, 30])
    N = rnd.choice([2, 2, 3, 3, 4, 0]) if focus != "C09" else rnd.choice([0, 2, 3, -1])
    opts = rnd.choice([0, 0, 4, 2, 6]) if focus != "C09" else rnd.choice([2, 6])
    if focus == "C05":          # nothing is ever deleted: whatever disappears is a lost record; compression more often than not
        N, opts = rnd.choice([0, -1]), rnd.choice([4, 6, 6, 2, 0])
    if focus == "C07":          # daily and size rotation together: records dated before the file's day
        N, opts = rnd.choice([0, 2, 3]), rnd.choice([2, 2, 6, 3])
    s = Scenario(sid, fname, "rot", L, N, opts, now=(2, rnd.choice([0, 7])))
    g = HistoryGen(rnd, s)
    g.op_ctor()
    minlen = 8
    for _ in range(rnd.randint(2, 7)):
        g.op_send(rnd.choice(size_choices(L, minlen)))
        if rnd.random() < 0.3:
            g.op_now(g.now[0], g.now[1] + rnd.choice([1, 2, 50]))
    g.op_zone(-1)
    # without a retention limit the calendar may also return to the day it left (A, B, A, B): the next index for a day
    # is one more than the highest index that day already has
    legs = 1 if N > 0 else (rnd.choice([2, 3]) if focus == "C05" else rnd.choice([1, 2, 3]))
    for leg in range(legs):
        if leg:
            g.op_zone(0 if g.tz else -1)
        for _ in range(rnd.randint(3, 9) if legs == 1 else rnd.randint(2, 5)):
            g.op_now(g.now[0], g.now[1] + rnd.choice([1, 1, 3, 40]))
            g.op_send(rnd.choice(size_choices(L, minlen)))
            if rnd.random() < 0.15:
                # (the clock moves between any two writes after a zone change: a flush is a write too)
                g.op_now(g.now[0], g.now[1] + rnd.choice([1, 2]))
                g.op_flush()
    if legs > 1:
        s.tags.add("zone-return")
    s.tags.add("zone-back")
    return s


def gen_zone_tie(sid):
    """known finding C06 zone-tie: the local date goes back and the next two rotations happen within one tick of the
    file system's clock - the two rotated files have the same modification time, the names (the tie-break) say the
    newer one is older, retention deletes the file it has just produced"""
    import random
    rnd = random.Random(7)
    s = Scenario(sid, "app.log", "rot", 12, 2, 0, now=(2, 0))
    g = HistoryGen(rnd, s)
    g.op_ctor()
    g.op_send(11, fancy=False)
    g.op_zone(-1)
    g.op_send(11, fancy=False)     # rotates r1 into <day 2>.1
    g.op_send(11, fancy=False)     # same tick: rotates r2 into <day 1>.1 - and removes it
    g.op_send(11, fancy=False)
    g.op_destroy()
    s.tags.add("known:zone-tie")
    return s


def gen_blocked_slot(rnd, sid):
    """a directory occupies the name the next rotation would use: QFile::rename refuses ("destination
    exists"), the sink must keep appending to the active file and lose nothing"""
    fname = rnd.choice(["app.log", "app"])
    s = Scenario(sid, fname, "rot", rnd.choice([12, 20]), rnd.choice([0, 3]), rnd.choice([0, 4, 1]), now=(2, 0))
    s.plant_dir(rotated_name(fname, 2, rnd.choice([1, 1, 2])))
    g = HistoryGen(rnd, s)
    g.op_ctor()
    for _ in range(rnd.randint(4, 9)):
        g.op_send(rnd.choice([9, 12, 13]), fancy=False)
        if rnd.random() < 0.15:
            g.op_flush()
    g.op_destroy()
    s.tags.add("blocked-slot")
    return s


# ------------------------------------------------------------------------------------------------
# running the driver
# ------------------------------------------------------------------------------------------------

def run_driver(bdir, scenarios, work, tag, timeout=1200):
    work = Path(work)
    work.mkdir(parents=True, exist_ok=True)
    inp = work / f"{tag}.scn"
    with open(inp, "w") as f:
        for s in scenarios:
            f.write(json.dumps(s.to_json(work / f"{tag}.d" / f"s{s.id}"), separators=(",", ":")) + "\n")
    outp = work / f"{tag}.raw"
    with open(outp, "wb") as out:
        p = subprocess.run([str(bdir / "drv_rotation"), str(inp)], stdout=out, stderr=subprocess.PIPE, timeout=timeout,
                           env={"LC_ALL": "C.UTF-8", "TZ": "UTC", "PATH": "/usr/bin:/bin"})
    if p.returncode != 0:
        raise C.ToolFailure(f"drv_rotation exited {p.returncode}: {p.stderr[-2000:]!r}")
    raw_runs = []
    with open(outp, "rb") as f:
        for line in f:
            line = line.strip()
            if not line:
                continue
            evt = json.loads(line)
            if evt["e"] == "Reset":
                raw_runs.append([])
            raw_runs[-1].append(evt)
    inp.unlink()
    outp.unlink()
    subprocess.run(["rm", "-rf", str(work / f"{tag}.d")])
    return raw_runs, p.stderr.decode(errors="replace")


# ------------------------------------------------------------------------------------------------
# projection
# ------------------------------------------------------------------------------------------------

_gzip_t_cache = {}


def gnu_gzip_ok(data):
    key = hash(data)
    if key not in _gzip_t_cache:
        p = subprocess.run(["gzip", "-t"], input=data, capture_output=True)
        _gzip_t_cache[key] = p.returncode == 0
    return _gzip_t_cache[key]


def gunzip_strict(data):
    """Independent check of a gzip member: header fields, whole stream consumed, CRC-32 and ISIZE of the
    trailer equal those of the decoded bytes.  Returns decoded bytes or None."""
    if len(data) < 18 or data[0] != 0x1F or data[1] != 0x8B or data[2] != 8:
        return None
    try:
        d = zlib.decompressobj(wbits=31)
        out = d.decompress(data)
        out += d.flush()
        if not d.eof or d.unused_data:
            return None
    except zlib.error:
        return None
    crc = int.from_bytes(data[-8:-4], "little")
    isize = int.from_bytes(data[-4:], "little")
    if crc != (zlib.crc32(out) & 0xFFFFFFFF) or isize != (len(out) & 0xFFFFFFFF):
        return None
    if not gnu_gzip_ok(data):
        return None
    return out


class Projector:
    def __init__(self, scn):
        self.s = scn
        base, suf = split_name(scn.file)
        pat = "^" + re.escape(base) + r"\.(\d{4})-(\d{2})-(\d{2})\.([1-9]\d*)" + (r"\." + re.escape(suf) if suf else "") + r"(\.gz)?$"
        self.re_rot = re.compile(pat)
        self.content = {}          # file name -> bytes (last listing)
        self.foreign_ids = {}
        self.content_ids = {}
        self.gz_files = 0
        self.gz_bytes = 0
        self.bad = []

    def name_of(self, fname):
        if fname == self.s.file:
            return ACTIVE
        m = self.re_rot.match(fname)
        if m:
            try:
                date = datetime.datetime(int(m.group(1)), int(m.group(2)), int(m.group(3)), tzinfo=datetime.timezone.utc)
                day = (date - DAY0).days
                if day >= 0:
                    return [1, day, int(m.group(4)), 1 if m.group(5) else 0]
            except ValueError:
                pass
        if fname not in self.foreign_ids:
            self.foreign_ids[fname] = len(self.foreign_ids) + 1
        return [2, self.foreign_ids[fname], 0, 0]

    def parse_records(self, data):
        """bytes -> list of record ids, or None when the bytes are not a concatenation of whole records"""
        recs = []
        p = 0
        n = len(data)
        while p < n:
            m = re.match(rb"r(\d+):", data[p:p + 16])
            if not m:
                return None
            rid = int(m.group(1))
            pay = self.s.payload.get(rid)
            if pay is None or data[p:p + len(pay)] != pay or data[p + len(pay):p + len(pay) + 1] != b"\n":
                return None
            recs.append(rid)
            p += len(pay) + 1
        return recs

    def files_of(self, listing):
        out = []
        seen = {}
        for f in listing:
            if f.get("special"):
                out.append({"n": self.name_of(f["name"]), "st": "special", "recs": [], "mt": [0, 0], "h": 0})
                continue
            if f.get("same"):
                data = self.content[f["name"]]
            else:
                data = base64.b64decode(f["b64"])
            seen[f["name"]] = data
            n = self.name_of(f["name"])
            ent = {"n": n, "recs": [], "mt": t_of(int(f["mt"])), "h": 0}
            if n[0] == 2:
                ent["st"] = "foreign"
                ent["h"] = self.content_ids.setdefault(data, len(self.content_ids) + 1)
            elif n[0] == 1 and n[3] == 1:
                dec = gunzip_strict(data)
                recs = self.parse_records(dec) if dec is not None else None
                if recs is None:
                    ent["st"] = "bad"
                else:
                    ent["st"] = "gz"
                    ent["recs"] = recs
                    self.gz_files += 1
                    self.gz_bytes = max(self.gz_bytes, len(dec))
            else:
                recs = self.parse_records(data)
                if recs is None:
                    ent["st"] = "bad"
                    self.bad.append(f["name"])
                else:
                    ent["st"] = "plain"
                    ent["recs"] = recs
            out.append(ent)
        self.content = seen
        return out


def translate(scn, raw):
    """raw driver events of one scenario -> events for Trace_Rotation.tla"""
    pj = Projector(scn)
    evs = []
    info = {"op_calls": {}, "sys": 0, "rotations": 0, "gz": 0, "retention": 0, "crash": False, "failed_calls": 0, "max_idx": 0,
            "calls_per_op": {}, "days": set()}
    cfg = {"L": scn.L, "N": scn.N, "startup": bool(scn.opts & 1), "daily": bool(scn.opts & 2), "gz": bool(scn.opts & 4)}
    if scn.kind == "file":
        cfg = {"L": 0, "N": 1, "startup": False, "daily": False, "gz": False}
    planted = scn.planted_hist
    nplanted = max(planted) if planted else 0
    for e in raw:
        k = e["e"]
        if k == "Reset":
            files = pj.files_of(e["list"])
            # planted records in rotation order, then the active file
            rot = sorted([f for f in files if f["n"][0] == 1], key=lambda f: (f["n"][1], f["n"][2]))
            hist = [r for f in rot for r in f["recs"]] + [r for f in files if f["n"] == ACTIVE for r in f["recs"]]
            evs.append({"e": "Reset", "scn": scn.id, "cfg": cfg, "files": files,
                        "rlen": [scn.rec_len(i) for i in range(1, nplanted + 1)],
                        "rday": [scn.rday[i] for i in range(1, nplanted + 1)],
                        "hist": hist, "t": list(scn.now0)})
        elif k == "Resume":
            pj.files_of(e["list"])
        elif k == "Now":
            t = t_of(int(e["ms"]))
            info["days"].add(t[0])
            evs.append({"e": "Now", "t": t})
        elif k == "Zone":
            evs.append({"e": "Zone", "z": int(e["z"]), "t": t_of(int(e["ms"]))})
            info["zoned"] = True
        elif k == "Begin":
            op = scn.ops[e["i"]]
            ev = {"e": "Begin", "op": e["op"], "rec": 0, "len": 0}
            if e["op"] == "ctor" and "L" in op:
                ev["cfg"] = {"L": op["L"], "N": op["N"], "startup": bool(op["opts"] & 1), "daily": bool(op["opts"] & 2),
                             "gz": bool(op["opts"] & 4)}
            if e["op"] == "send":
                ev["rec"] = op["rec"]
                ev["len"] = scn.rec_len(op["rec"])
            evs.append(ev)
            info["cur_op"] = e["i"]
        elif k == "Sys":
            info["sys"] += 1
            f = pj.name_of(e["f"])
            t = pj.name_of(e["t"]) if "t" in e else NONE
            if e["c"] == "rename" and e["ok"]:
                info["rotations"] += 1
                info["max_idx"] = max(info["max_idx"], t[2])
            if e["c"] == "open" and e.get("m") == "trunc" and f[3] == 1 and e["ok"]:
                info["gz"] += 1
            if e["c"] == "unlink" and f[0] == 1 and e["ok"] and not (f[3] == 0 and cfg["gz"]):
                info["retention"] += 1
            if not e["ok"]:
                info["failed_calls"] += 1
            info["op_calls"].setdefault(info.get("cur_op"), []).append((e["c"], f, e.get("m", "")))
            evs.append({"e": "Sys", "c": e["c"], "f": f, "t": t, "m": e.get("m", ""), "ok": bool(e["ok"]),
                        "n": int(e.get("n", 0))})
        elif k == "End":
            info["calls_per_op"][info.get("cur_op")] = int(e["calls"])
            evs.append({"e": "End", "files": pj.files_of(e["list"])})
        elif k == "CrashAt":
            info["crash_at"] = (e["i"], int(e["k"]), e["next"])
        elif k == "Crash":
            info["crash"] = True
            if e["code"] != 77:
                raise C.ToolFailure(f"crash child of scenario {scn.id} exited with {e['code']}, expected 77")
            evs.append({"e": "Crash", "files": pj.files_of(e["list"])})
        elif k == "ChildFailed":
            raise C.ToolFailure(f"resume child of scenario {scn.id} failed: {e}")
    info["gz_files_decoded"] = pj.gz_files
    info["gz_max_decoded"] = pj.gz_bytes
    info["unparseable_files"] = pj.bad
    info["days"] = len(info["days"])
    return evs, info


def execute(bdir, scenarios, work, tag):
    """run scenarios on the real sink; returns list of (scenario, events, info)"""
    raw_runs, stderr = run_driver(bdir, scenarios, work, tag)
    if len(raw_runs) != len(scenarios):
        raise C.ToolFailure(f"driver produced {len(raw_runs)} runs for {len(scenarios)} scenarios: {stderr[-1500:]}")
    out = []
    for s, raw in zip(scenarios, raw_runs):
        evs, info = translate(s, raw)
        if not s.fault and info["failed_calls"]:
            raise C.ToolFailure(f"scenario {s.id}: a libc call failed although no fault was injected "
                                f"(environment problem?): {[e for e in raw if e['e'] == 'Sys' and not e['ok']][:3]}")
        out.append((s, evs, info))
    return out


# ------------------------------------------------------------------------------------------------
# crash / fault campaigns (C10)
# ------------------------------------------------------------------------------------------------

def clone_prefix(s, upto, sid):
    """a copy of scenario s truncated after op index `upto` (inclusive), same records"""
    c = Scenario(sid, s.file, s.kind, s.L, s.N, s.opts, tuple(s.now0))
    c.plants = s.plants
    c.planted_hist = s.planted_hist
    c.ops = [dict(o) for o in s.ops[:upto + 1]]
    c.payload = dict(s.payload)
    c.rday = dict(s.rday)
    c.nrec = max([o["rec"] for o in c.ops if o["op"] == "send"] + [max(s.planted_hist) if s.planted_hist else 0])
    c.tags = set(s.tags)
    return c


def now_at(s, upto):
    t = list(s.now0)
    for o in s.ops[:upto + 1]:
        if o["op"] == "now":
            t = t_of(o["ms"])
    return t


def add_tail(rnd, c, t):
    """what a process started after the crash / fault does: restart, log more (enough to rotate), stop"""
    g = HistoryGen(rnd, c)
    g.now = list(t)
    g.alive = False
    if rnd.random() < 0.4:
        g.op_now(t[0], t[1] + 1)
    elif rnd.random() < 0.3:
        g.op_now(t[0] + 1, 0)
    g.op_ctor()
    minlen = len(f"r{c.nrec + 1}:") + 1
    for _ in range(rnd.randint(2, 5)):
        g.op_send(rnd.choice(size_choices(c.L, minlen)), fancy=False)
    g.op_destroy()


def crash_variants(rnd, s, info, next_id, ops_filter=None, max_per_op=40):
    """for every libc call k of every (selected) op of the executed scenario s: the same history, killed
    right before call k (k = calls+1: right after the op), then a restart"""
    out = []
    for i, op in enumerate(s.ops):
        if op["op"] == "now":
            continue
        calls = info["calls_per_op"].get(i)
        if calls is None:
            continue
        if ops_filter and not ops_filter(i, op, calls):
            continue
        # k = calls + 1: killed right after the call returned (the buffer is lost); after a destroy there is
        # no sink left to kill
        ks = list(range(1, calls + (1 if op["op"] == "destroy" else 2)))
        if len(ks) > max_per_op:
            ks = ks[:max_per_op // 2] + ks[-max_per_op // 2:]
        for k in ks:
            c = clone_prefix(s, i, next_id)
            next_id += 1
            c.crash = {"op": i, "k": k}
            c.resume_now = now_at(s, i)
            add_tail(rnd, c, c.resume_now)
            c.tags.add("crash")
            out.append(c)
    return out, next_id


def clone_full(s, sid):
    c = clone_prefix(s, len(s.ops) - 1, sid)
    return c


def fault_variants(rnd, s, info, next_id):
    """the same history with one injected failure during one op: the rename, creating the compressed file,
    opening the rotated file for compression, or the j-th delete"""
    out = []
    for i, calls in sorted(info["op_calls"].items()):
        kinds = []
        nun = 0
        for (c, f, m) in calls:
            if c == "rename":
                kinds.append(("rename", 1))
            elif c == "open" and m == "trunc" and f[0] == 1 and f[3] == 1:
                kinds.append(("creategz", 1))
            elif c == "open" and m == "rd" and f[0] == 1:
                kinds.append(("openin", 1))
            elif c == "unlink":
                nun += 1
                kinds.append(("unlink", nun))
        for kind, nth in kinds:
            c = clone_full(s, next_id)
            next_id += 1
            c.fault = {"op": i, "kind": kind, "nth": nth, "errno": rnd.choice([13, 28, 1, 30])}
            c.tags.add("fault:" + kind)
            t = now_at(c, len(c.ops) - 1)
            # make sure the story goes on after the failure
            g = HistoryGen(rnd, c)
            g.now = list(t)
            g.alive = bool(c.ops) and c.ops[-1]["op"] != "destroy"
            if not g.alive:
                g.op_ctor()
            minlen = len(f"r{c.nrec + 1}:") + 1
            for _ in range(rnd.randint(2, 4)):
                g.op_send(rnd.choice(size_choices(c.L, minlen)), fancy=False)
            g.op_destroy()
            out.append(c)
    return out, next_id


# ------------------------------------------------------------------------------------------------
# two sinks compressing at the same time (C08: "for any content" also means whatever another sink is doing)
# ------------------------------------------------------------------------------------------------

class Twin:
    def __init__(self, sid, rnd, big):
        self.id = sid
        self.subs = {}
        self.now0 = [2, 0]
        size = rnd.choice([200000, 700000]) if not big else rnd.choice([3 << 20, 6 << 20])
        for name in ("a", "b"):
            s = Scenario(sid * 10 + (1 if name == "a" else 2), "app.log", "rot", 0, 0, 5, now=(2, 0))
            s.nrec = 1
            # different, compressible content per sink
            line = (f"sink {name} line %d payload {rnd.random()}\n").encode()
            body = b"".join(line.replace(b"%d", str(i).encode()) for i in range(size // len(line)))
            s.payload[1] = b"r1:" + body
            s.rday[1] = 1
            s.plants.append({"name": "app.log", "bytes": s.payload[1] + b"\n", "mt": [1, 40], "recs": [1]})
            s.planted_hist.append(1)
            s.nrec = 2
            s.payload[2] = b"r2:hello"
            s.rday[2] = 2
            s.ops = [{"op": "ctor"}, {"op": "send", "rec": 2}, {"op": "destroy"}]
            s.tags.add("twin-sinks")
            self.subs[name] = s

    def to_json(self, root):
        plants = []
        for name, s in self.subs.items():
            for p in s.plants:
                plants.append({"sub": name, "name": p["name"], "b64": b64(p["bytes"]), "mt": ms_of(*p["mt"])})
        return {"id": self.id, "twin": True, "root": str(root), "subs": list(self.subs), "file": "app.log", "L": 0, "N": 0, "opts": 5,
                "now": ms_of(*self.now0), "plants": plants, "b64": b64(self.subs["a"].payload[2])}


def execute_twins(bdir, twins, work, tag, timeout=900):
    work = Path(work)
    work.mkdir(parents=True, exist_ok=True)
    inp = work / f"{tag}.scn"
    with open(inp, "w") as f:
        for t in twins:
            f.write(json.dumps(t.to_json(work / f"{tag}.d" / f"t{t.id}"), separators=(",", ":")) + "\n")
    outp = work / f"{tag}.raw"
    with open(outp, "wb") as out:
        p = subprocess.run([str(bdir / "drv_rotation"), str(inp)], stdout=out, stderr=subprocess.PIPE, timeout=timeout,
                           env={"LC_ALL": "C.UTF-8", "TZ": "UTC", "PATH": "/usr/bin:/bin"})
    if p.returncode != 0:
        raise C.ToolFailure(f"drv_rotation (twin) exited {p.returncode}: {p.stderr[-1500:]!r}")
    groups = []
    with open(outp, "rb") as f:
        for line in f:
            if not line.strip():
                continue
            e = json.loads(line)
            if e["e"] == "Reset":
                groups.append([])
            groups[-1].append(e)
    inp.unlink()
    outp.unlink()
    subprocess.run(["rm", "-rf", str(work / f"{tag}.d")])
    out = []
    for t, raw in zip(twins, groups):
        for name, s in t.subs.items():
            mine = []
            opi = {"ctor": 0, "send": 1, "destroy": 2}
            for e in raw:
                if e["e"] == "Reset":
                    mine.append({"e": "Reset", "scn": s.id, "list": e["lists"][name]})
                elif e["e"] in ("Begin", "End"):
                    if e["sub"] != name:
                        continue
                    if e["e"] == "Begin":
                        mine.append({"e": "Begin", "op": e["op"], "i": opi[e["op"]]})
                    else:
                        mine.append({"e": "End", "calls": 0, "list": e["list"]})
                elif e["e"] == "Sys":
                    if not e["f"].startswith(name + "/"):
                        continue
                    e2 = dict(e)
                    e2["f"] = e["f"][len(name) + 1:]
                    if "t" in e:
                        e2["t"] = e["t"][len(name) + 1:]
                    mine.append(e2)
            evs, info = translate(s, mine)
            out.append((s, evs, info))
    return out
