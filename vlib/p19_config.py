"""C19 - configuration front-ends and handler installation (spec/QtlConfig.tla).

Children configured from generated INI files / one-line arguments emit a scripted message stream through Qt's logging
API; what arrives at stdout, stderr and the log file is validated by TLC against IniObligations / OneLineObligations
(which compose QtlCategory's Verdict, the regular-expression menu and QtlPattern's Format).  In-process histories of
install / restore / foreign-handler installation are validated against the handler-slot machine of the same module."""
import json
import os
import re
import os
import random
import subprocess
import time
from pathlib import Path

from . import catrules
from . import common as C

CATS = ["default", "app", "app.net", "net", "ui.dialog", "x"]
TYPES = ["debug", "info", "warning", "critical"]
TEXTS = ["started", "connection lost", "value=42", "a%b{c}", "ERROR: disk", "retry #3", "ok", "net down", "x",
         "gr\u00fc\u00dfe", "\u0436\u0443\u0440\u043d\u0430\u043b ok", "\u4e2d\u6587 value"]
NOSPEC = {"on": False, "fill": 32, "fillgiven": False, "align": "none", "width": 0, "bang": False}


def u(s):
    return [ord(c) for c in s]


def lit(s):
    return {"k": "lit", "text": u(s)}


def ph(val, spec=None):
    return {"k": "ph", "val": u(val), "spec": spec or dict(NOSPEC)}


PATTERNS = {
    "%{type}|%{category}|%{message}":
        lambda m: [ph(m["type"]), lit("|"), ph(m["cat"]), lit("|"), ph(m["text"])],
    "[%{category:<8}] %{message}":
        lambda m: [lit("["), ph(m["cat"], {"on": True, "fill": 32, "fillgiven": False, "align": "<", "width": 8, "bang": False}),
                   lit("] "), ph(m["text"])],
    "%{if-warning}W:%{endif}%{if-critical}E:%{endif}%{message} (%{line})":
        lambda m: [{"k": "if", "type": "warning"}, lit("W:"), {"k": "endif"}, {"k": "if", "type": "critical"}, lit("E:"), {"k": "endif"},
                   ph(m["text"]), lit(" ("), ph(str(m["line"])), lit(")")],
    "%{message}": lambda m: [ph(m["text"])],
    # conditional as a whole: a message of another type becomes an EMPTY line (not the raw message - seed C19k)
    "%{if-warning}W: %{message}%{endif}":
        lambda m: [{"k": "if", "type": "warning"}, lit("W: "), ph(m["text"]), {"k": "endif"}],
}


def ini_quote(v):
    return '"' + v.replace("\\", "\\\\").replace('"', '\\"').replace("\n", "\\n").replace("\r", "\\r").replace("\t", "\\t") + '"'


# message texts that carry terminal colour codes of their own (forwarded compiler / tool output)
COLOURED_TEXTS = ["\x1b[31merror:\x1b[0m no such file", "warn \x1b[1;33mdeprecated\x1b[0m call", "\x1b[32mok\x1b[m",
                  "plain then \x1b[0;36mcyan"]


def gen_msgs(rnd, n, coloured=False):
    out = []
    for i in range(n):
        pool = COLOURED_TEXTS if coloured and rnd.random() < 0.4 else TEXTS
        out.append({"type": rnd.choice(TYPES), "cat": rnd.choice(CATS), "text": rnd.choice(pool) + " " + str(i), "line": 10 + i})
    return out


def spec_msgs(msgs, pattern):
    out = []
    for m in msgs:
        toks = PATTERNS[pattern](m) if pattern else []
        out.append({"type": m["type"], "cat": u(m["cat"]), "text": u(m["text"]), "tokens": toks})
    return out


class IniScenario:
    def __init__(self, sid, rnd, work):
        self.id = sid
        r = rnd
        self.dir = Path(work) / f"cfg{sid}"
        self.keys_text = {}
        self.rules = []
        if r.random() < 0.6:
            # printable rule text without the quoting pitfalls of the INI syntax handled by ini_quote
            self.rules, text = catrules.gen_rules(r, CATS, r.choice([1, 2, 3]))
            if text.strip():
                self.keys_text["filter_rules"] = text
            else:
                self.rules = []
        self.rx = {"kind": "none", "lit": []}
        if r.random() < 0.4:
            kind = r.choice(["contains", "prefix", "suffix"])
            word = r.choice(["net", "value", "ok", "ERROR", "3", "x 1", "lost"])
            self.rx = {"kind": kind, "lit": u(word)}
            self.keys_text["regexp_filter"] = {"contains": word, "prefix": "^" + word, "suffix": word + "$"}[kind]
        self.pattern = r.choice(list(PATTERNS) + [None])
        if self.pattern:
            self.keys_text["message_pattern"] = self.pattern
        # every value of the four console keys: absent / false / true (an output is on when its key or its colour key
        # is true - an explicit false of one does not veto the other)
        def tri():
            return r.choice([None, None, "false", "true"])
        vals = {k: tri() for k in ("stdout", "stdout_color", "stderr", "stderr_color")}
        if r.random() < 0.35:
            vals["stdout"] = vals["stdout_color"] = None
        if r.random() < 0.35:
            vals["stderr"] = vals["stderr_color"] = None
        console_focus = r.random() < 0.2
        if console_focus:
            # both colour keys together, the two streams of different kinds (app 2>err.log from a terminal)
            vals["stdout_color"] = vals["stderr_color"] = "true"
            vals["stdout"] = r.choice([None, "true", "false"])
            vals["stderr"] = r.choice([None, "true", "false"])
        for k, v in vals.items():
            if v is not None:
                self.keys_text[k] = v
        self.stdout = "true" in (vals["stdout"], vals["stdout_color"])
        self.stderr = "true" in (vals["stderr"], vals["stderr_color"])
        self.color_out = vals["stdout_color"] == "true"
        self.color_err = vals["stderr_color"] == "true"
        # which of the child's standard streams are terminals (a colour key colours only a stream that is one)
        self.tty_out, self.tty_err = r.choice([(False, False), (False, False), (True, False), (False, True), (True, True)])
        if console_focus:
            self.tty_out, self.tty_err = r.choice([(True, False), (False, True)])
        self.platform = True
        x = r.random()
        if x < 0.5:
            self.keys_text["platform_std_log"] = "false"
            self.platform = False
        elif x < 0.6:
            self.keys_text["platform_std_log"] = "true"
        self.file = r.random() < 0.6
        self.logpath = self.dir / r.choice(["app.log", "out/app.log" if False else "my.log"])
        # the file keys with their documented defaults; a log file of an earlier day may be there already
        self.fopt = {"L": 1048576, "N": 5, "startup": True, "daily": False, "gz": False, "old": []}
        if self.file:
            self.keys_text["path"] = str(self.logpath)
            if r.random() < 0.6:
                self.fopt["L"] = r.choice([0, 150, 150, 400, 100000, 1048576])
                self.keys_text["max_file_size"] = str(self.fopt["L"])
            if r.random() < 0.6:
                self.fopt["N"] = r.choice([0, 1, 2, 3, 5])
                self.keys_text["max_file_count"] = str(self.fopt["N"])
            if r.random() < 0.6:
                self.fopt["startup"] = r.random() < 0.5
                self.keys_text["rotate_on_startup"] = "true" if self.fopt["startup"] else "false"
            if r.random() < 0.5:
                self.fopt["daily"] = r.random() < 0.6
                self.keys_text["rotate_daily"] = "true" if self.fopt["daily"] else "false"
            if r.random() < 0.5:
                self.fopt["gz"] = r.random() < 0.6
                self.keys_text["compress_old_files"] = "true" if self.fopt["gz"] else "false"
            if r.random() < 0.6:
                self.fopt["old"] = [f"old line {i + 1} of an earlier day" for i in range(r.randint(1, 3))]
        self.async_ = r.random() < 0.4
        if self.async_:
            self.keys_text["async"] = "true"
        elif r.random() < 0.3:
            self.keys_text["async"] = "false"
        self.group = r.choice(["logger", "logger", "log2"])
        self.via_settings = r.random() < 0.3
        self.msgs = gen_msgs(r, r.randint(1, 8))
        if self.file and r.random() < 0.15:
            # "0 = keep every rotated file", said explicitly, and enough output for more rotations than any default keeps
            self.fopt["L"], self.fopt["N"] = 150, 0
            self.keys_text["max_file_size"], self.keys_text["max_file_count"] = "150", "0"
            self.msgs = gen_msgs(r, r.randint(30, 40))

    def write(self):
        self.dir.mkdir(parents=True, exist_ok=True)
        if self.file and self.fopt["old"]:
            self.logpath.parent.mkdir(parents=True, exist_ok=True)
            self.logpath.write_text("".join(l + "\n" for l in self.fopt["old"]))
            t = time.time() - 2 * 86400
            os.utime(self.logpath, (t, t))
        lines = [f"[{self.group}]"]
        for k, v in self.keys_text.items():
            lines.append(f"{k}={ini_quote(v)}")
        (self.dir / "conf.ini").write_text("\n".join(lines) + "\n")
        scn = {"ini": str(self.dir / "conf.ini"), "group": self.group, "viaSettings": self.via_settings, "async": self.async_,
               "msgs": self.msgs}
        (self.dir / "scn.json").write_text(json.dumps(scn))
        return self.dir / "scn.json"

    def keys(self):
        return {"rules": self.rules, "rx": self.rx, "fmt": "pattern" if self.pattern else "pretty", "stdout": self.stdout,
                "stderr": self.stderr, "platform": self.platform, "file": self.file,
                "colorOut": self.color_out, "colorErr": self.color_err, "ttyOut": self.tty_out, "ttyErr": self.tty_err,
                "fopt": dict(self.fopt, old=[u(l) for l in self.fopt["old"]])}

    def describe(self):
        return {"id": self.id, "ini": self.keys_text, "group": self.group, "messages": self.msgs}


class OneLineScenario:
    def __init__(self, sid, rnd, work):
        self.id = sid
        self.dir = Path(work) / f"one{sid}"
        self.has_path = rnd.random() < 0.8
        self.logpath = self.dir / "one.log"
        self.L = rnd.choice([0, 0, 150, 400, 100000])
        self.N = rnd.choice([0, 1, 2, 3])
        self.opts = rnd.choice([0, 0, 1, 2, 4, 5, 6, 7])
        self.async_ = rnd.random() < 0.5
        self.msgs = gen_msgs(rnd, rnd.randint(1, 8), coloured=True)
        # what the arguments ask of the file sink, and (sometimes) a log file of an earlier day that is already there
        self.fopt = {"L": self.L, "N": self.N, "startup": bool(self.opts & 1), "daily": bool(self.opts & 2), "gz": bool(self.opts & 4),
                     "old": [f"old line {i + 1} of an earlier day" for i in range(rnd.randint(1, 3))] if rnd.random() < 0.6 else []}

    def write(self):
        self.dir.mkdir(parents=True, exist_ok=True)
        if self.has_path and self.fopt["old"]:
            self.logpath.write_text("".join(l + "\n" for l in self.fopt["old"]))
            t = time.time() - 2 * 86400
            os.utime(self.logpath, (t, t))
        scn = {"path": str(self.logpath) if self.has_path else "", "L": self.L, "N": self.N, "opts": self.opts, "async": self.async_,
               "msgs": self.msgs}
        (self.dir / "scn.json").write_text(json.dumps(scn))
        return self.dir / "scn.json"

    def describe(self):
        return {"id": self.id, "one_line": {"path": self.has_path, "maxFileSize": self.L, "maxFileCount": self.N, "options": self.opts,
                                            "async": self.async_}, "messages": self.msgs}


def lines_of(data):
    text = data.decode("utf-8", errors="replace")
    ls = text.split("\n")
    if ls and ls[-1] == "":
        ls = ls[:-1]
    return [u(x) for x in ls]


ROTATED = re.compile(r"^(?P<base>.+)\.(?P<date>\d{4}-\d{2}-\d{2})\.(?P<idx>\d+)(?P<suf>\.[^.]+)?$")


def read_rotated(scn):
    """the rotated files next to the log file, in (date, index) order"""
    import datetime
    import gzip
    lp = scn.logpath
    if not lp.parent.exists():
        return []
    today = datetime.datetime.utcnow().date()
    stem, suf = lp.stem, lp.suffix
    found = []
    for f in lp.parent.iterdir():
        name = f.name
        gz = name.endswith(".gz")
        core = name[:-3] if gz else name
        m = ROTATED.match(core)
        if not m or m.group("base") != stem or (m.group("suf") or "") != suf:
            continue
        data = f.read_bytes()
        if gz:
            data = gzip.decompress(data)
        d = datetime.date.fromisoformat(m.group("date"))
        found.append(((m.group("date"), int(m.group("idx"))),
                      {"gz": gz, "old": (today - d).days >= 1, "lines": lines_of(data), "bytes": len(data)}))
    return [r for _, r in sorted(found, key=lambda x: x[0])]


def _capture(cmd, env, tty_out, tty_err, timeout=60):
    """run cmd with stdout / stderr on pipes or on pseudo-terminals (raw mode: no newline translation)"""
    import pty
    import threading
    import tty as ttymod

    def channel(use_tty):
        if use_tty:
            m, sl = pty.openpty()
            ttymod.setraw(sl)
            return m, sl
        return os.pipe()

    ro, wo = channel(tty_out)
    re_, we = channel(tty_err)
    p = subprocess.Popen(cmd, stdout=wo, stderr=we, stdin=subprocess.DEVNULL, env=env, close_fds=True)
    os.close(wo)
    os.close(we)
    bufs = {ro: bytearray(), re_: bytearray()}

    def pump(fd):
        while True:
            try:
                b = os.read(fd, 65536)
            except OSError:          # EIO: the terminal's last writer is gone
                break
            if not b:
                break
            bufs[fd] += b
        os.close(fd)
    ths = [threading.Thread(target=pump, args=(fd,)) for fd in (ro, re_)]
    for t in ths:
        t.start()
    try:
        rc = p.wait(timeout=timeout)
    except subprocess.TimeoutExpired:
        p.kill()
        rc = p.wait()
    for t in ths:
        t.join()
    return rc, bytes(bufs[ro]), bytes(bufs[re_])


def run_child(bdir, mode, scn):
    rc, so, se = _capture([str(bdir / "drv_config"), mode, str(scn.write())],
                          {"LC_ALL": "C.UTF-8", "TZ": "UTC", "PATH": "/usr/bin:/bin", "ASAN_OPTIONS": "detect_leaks=0"},
                          getattr(scn, "tty_out", False), getattr(scn, "tty_err", False))

    class P:
        pass
    p = P()
    p.returncode, p.stdout, p.stderr = rc, so, se
    file_lines = []
    nbytes = 0
    exists = scn.logpath.exists()
    if exists:
        data = scn.logpath.read_bytes()
        file_lines = lines_of(data)
        nbytes = len(data)
    out = {"stdout": lines_of(p.stdout), "stderr": lines_of(p.stderr), "file": file_lines, "fileExists": exists,
           "fileBytes": nbytes, "rot": read_rotated(scn)}
    if mode == "oneline":
        out["fopt"] = dict(scn.fopt, old=[u(l) for l in scn.fopt["old"]])
    subprocess.run(["rm", "-rf", str(scn.dir)])
    return out, p.returncode


def gen_history(rnd, hid):
    """install / restore / foreign-handler steps on two Logger objects; every other history also destroys loggers and
    probes, after each step, who receives a message emitted through Qt's macros (the logger installed last and still
    alive - QtlConfig!Receiver)"""
    ops = []
    probing = hid % 2 == 0
    alive = {"install": True, "install2": True}
    for _ in range(rnd.randint(1, 9)):
        op = rnd.choice(["install", "install", "install2", "restore", "restore", "f1", "f2"] + (["kill", "kill2"] if probing else []))
        if op in ("kill", "kill2"):
            tgt = "install" if op == "kill" else "install2"
            if not alive[tgt]:
                continue
            alive[tgt] = False
        if op in alive and not alive[op]:
            continue
        ops.append(op)
        if probing:
            ops.append("log")
    if not ops:
        ops = ["install"]
    return {"id": hid, "ops": ops}


def run_histories(bdir, hists, work):
    work.mkdir(parents=True, exist_ok=True)
    inp = work / "hist.json"
    inp.write_text("".join(json.dumps(h) + "\n" for h in hists))
    p = subprocess.run([str(bdir / "drv_config"), "install", str(inp)], capture_output=True, text=True, timeout=120,
                       env={"LC_ALL": "C.UTF-8", "PATH": "/usr/bin:/bin", "ASAN_OPTIONS": "detect_leaks=0"})
    inp.unlink()
    if p.returncode != 0:
        raise C.ToolFailure("drv_config install failed: " + p.stderr[-1500:])
    return [json.loads(l) for l in p.stdout.splitlines() if l.strip()]


def validate(events, owners, work, tag):
    """events validated in one TLC run per chunk; a rejected event is isolated and reported with its owner"""
    accepted = 0
    rejected = []
    # chunks must not cut a handler history in two: a chunk starts at an event that is not an "Op"
    chunks = []
    cur = []
    for i, e in enumerate(events):
        if len(cur) >= 400 and e["e"] != "Op":
            chunks.append(cur)
            cur = []
        cur.append(i)
    if cur:
        chunks.append(cur)
    n = 0
    for part in chunks:
        while part:
            n += 1
            tp = C.write_ndjson(work / f"{tag}.{n}.ndjson", [events[i] for i in part])
            ok, matched, res = C.validate_trace("Trace_Config", "Trace_Config.cfg", tp, len(part), timeout=900)
            tp.unlink()
            if ok:
                accepted += len(part)
                break
            accepted += matched
            rejected.append((part[matched], res.violation))
            # skip to the next Reset / configuration event
            rest = part[matched + 1:]
            while rest and events[rest[0]]["e"] == "Op":
                rest = rest[1:]
            part = rest
            if len(rejected) >= 30:
                return accepted, rejected
    return accepted, rejected


def run(pid, tier, seed):
    t0 = time.time()
    mc = C.run_tlc("QtlConfig", "MC_Install.cfg", timeout=600, workers=4)
    if mc.error or mc.violation:
        raise C.ToolFailure(f"the handler-slot machine violates its properties ({mc.violation}):\n{(mc.error or mc.out)[-2000:]}")
    mcp = C.run_tlc("MC_Config", "MC_Config.cfg", timeout=900, workers=4)
    if mcp.error or mcp.violation:
        raise C.ToolFailure(f"QtlConfig fails its sanity assumptions ({mcp.violation}):\n{(mcp.error or mcp.out)[-2000:]}")
    bdir = C.ensure_harness("asan", ["drv_config"])
    work = C.BUILD / "work" / pid
    work.mkdir(parents=True, exist_ok=True)
    rnd = random.Random(seed * 16807 + 19)
    n_ini, n_one, n_hist = (70, 25, 400) if tier == "quick" else (1500, 400, 20000)
    events, owners = [], []
    bad_exit = []
    for i in range(n_ini):
        s = IniScenario(i + 1, rnd, work)
        out, rc = run_child(bdir, "ini", s)
        if rc != 0:
            bad_exit.append((s, rc))
        events.append({"e": "Ini", "keys": s.keys(), "msgs": spec_msgs(s.msgs, s.pattern), "out": out})
        owners.append(s)
    for i in range(n_one):
        s = OneLineScenario(10000 + i, rnd, work)
        out, rc = run_child(bdir, "oneline", s)
        if rc != 0:
            bad_exit.append((s, rc))
        events.append({"e": "OneLine", "hasPath": s.has_path, "msgs": spec_msgs(s.msgs, None), "out": out})
        owners.append(s)
    hists = [gen_history(rnd, i + 1) for i in range(n_hist)]
    hevs = run_histories(bdir, hists, work)
    hi = -1
    for e in hevs:
        if e["e"] == "Reset":
            hi += 1
        events.append(e)
        owners.append(hists[hi])
    viol = 0
    for s, rc in bad_exit:
        rp = C.save_replay(pid, f"exit_{seed}_{s.id}.json", {"kind": "child-failed", "scenario": s.describe(), "rc": rc})
        C.report_violation(pid, rp)
        viol += 1
    accepted, rejected = validate(events, owners, work, f"v{seed}")
    for i, v in rejected:
        o = owners[i]
        desc = o.describe() if hasattr(o, "describe") else o
        rp = C.save_replay(pid, f"case_{seed}_{i}.json", {"kind": "rejected", "violated": v, "what": desc,
                                                          "event": {k: events[i][k] for k in events[i] if k not in ("msgs",)}})
        C.report_violation(pid, rp)
        viol += 1
    # beyond the property: the default line format as an automaton (QtlPretty); a deviation is reported as a note, not
    # as a violation of C19 (the statement does not fix the pretty layout)
    from . import pretty
    bd = C.ensure_harness("asan", ["drv_pattern"])
    p_acc, p_fail, p_info = pretty.campaign(bd, rnd, 60 if tier == "quick" else 1500, work)
    if p_fail:
        print(f"NOTE property=C19 the PrettyFormatter automaton (spec/QtlPretty.tla) rejected {len(p_fail)} of {p_info['runs']} runs "
              "- the default line layout changed", flush=True)
    from . import utils_spec
    mcu = C.run_tlc("MC_Utils", "MC_Utils.cfg", workers=2)
    if mcu.violation:
        print("NOTE property=C19 MC_Utils: " + str(mcu.violation)[:200], flush=True)
    u_acc, u_fail, u_info = utils_spec.campaign(bdir, rnd, 120 if tier == "quick" else 3000, work)
    if u_fail:
        print(f"NOTE property=C19 the message-pattern / filter-rule helpers (spec/QtlUtils.tla) rejected {len(u_fail)} of "
              f"{u_info['histories']} histories", flush=True)
    nontrivial = sum(1 for o in owners if isinstance(o, IniScenario) and (o.rules or o.rx["kind"] != "none"))
    C.write_evidence(pid, tier, seed, "model_checking", {
        "states": mc.distinct + mcp.distinct, "transitions": mc.generated + mcp.generated,
        "traces_validated_against_impl": accepted,
        "samples": [owners[0].describe(), hists[0]],
        "evaluations": n_ini + n_one + n_hist, "distinct_nontrivial": nontrivial + n_hist,
        "rule": "children configured from generated INI files (every key of the statement: category rules with separators and garbage "
                "lines, regular-expression filter, message pattern from a menu or the default pretty format, stdout/stderr with and "
                "without colour keys, platform log, file path with size/count/startup/daily/compression, async; QSettings object or file "
                "name, default and custom group) and from one-line configure() arguments; 1-8 messages in 6 categories through "
                "QMessageLogger; install/restore/foreign histories of <= 9 steps with two Logger objects; non-trivial = the configuration "
                "filters something (or it is a handler history)",
        "exhaustive": False,
        "beyond_the_property": {"pretty_formatter_automaton": dict(p_info, accepted_runs=p_acc, rejected_runs=len(p_fail)),
                                "utils_message_pattern_and_filter_rules": dict(u_info, accepted_histories=u_acc,
                                                                               rejected_histories=len(u_fail),
                                                                               model_states=mcu.distinct)},
        "ini_children": n_ini, "one_line_children": n_one, "handler_histories": n_hist, "rejected": len(rejected),
    }, time.time() - t0, viol, [
        "TLC and the Json/IOUtils community modules are trusted",
        "the children's stdout/stderr are pipes, so the colour keys do not add colour codes (ColorMode::Auto); the platform log is "
        "standard error on this platform",
        "the default pretty line is checked by shape (timestamp, type letter, [category] for non-default categories, message last)",
        "ambiguous history install, foreign, install, restore is accepted with either the original or the foreign handler (DESIGN 3.1c)",
    ])
    return 1 if viol else 0


def replay(pid, path):
    print(open(path).read()[:3000])
    print("re-run the campaign to reproduce: ./check C19 quick")
    return 2
