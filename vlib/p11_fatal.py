"""C11 - a fatal message and everything before it reach the log file (spec/QtlRotation.tla, event Fatal).

A child process configures a synchronous Logger with file sinks (plain / rotating, flat / nested pipelines /
the one-line configure()), logs n messages and then a fatal one; Qt aborts it.  The interposer's events and the
files found after the death are validated by TLC against the sink machine of QtlRotation; the Fatal event requires
FatalDurable (nothing left in QFile's buffer, every record - the fatal one included - flushed) and the directory to
be the spec's."""
import base64
import json
import os
import random
import re
import signal
import subprocess
import time
from pathlib import Path

from . import common as C
from . import rotation as R


class FatalScenario:
    def __init__(self, sid, rnd, tier):
        self.id = sid
        self.config = rnd.choice(["fluent", "fluent", "nested", "oneline", "wrapped", "wrapped"])
        nsinks = 1 if self.config == "oneline" else rnd.choice([1, 1, 2, 3])
        self.sinks = []
        for j in range(nsinks):
            kind = rnd.choice(["file", "rot", "rot"])
            if self.config == "oneline":
                kind = rnd.choice(["file", "rot"])
            s = {"kind": kind, "sub": f"s{j + 1}", "file": rnd.choice(["app.log", "fatal.log"]), "L": 0, "N": 0, "opts": 0}
            if self.config == "wrapped":
                # the container the sink sits in: every pipeline class can be a child of the logger, at any depth
                s["wrap"] = rnd.choice(["plain", "plain-scoped", "sorted", "plain-in-fluent", "fluent-in-plain", "fluent"])
            if kind == "rot":
                s["L"] = rnd.choice([60, 200, 1000, 20000])
                s["N"] = rnd.choice([0, 3, 5])
                s["opts"] = rnd.choice([0, 0, 4, 2])
                if self.config == "oneline":
                    s["N"] = 0          # record lengths are read back from the files: nothing may be deleted
            self.sinks.append(s)
        shape = rnd.choice(["none", "few", "few", "many", "big"] if tier == "quick" else ["none", "few", "many", "many", "big", "huge"])
        if shape == "none":
            sizes = []
        elif shape == "few":
            sizes = [rnd.randint(8, 60) for _ in range(rnd.randint(1, 6))]
        elif shape == "many":
            sizes = [rnd.randint(40, 120) for _ in range(rnd.randint(180, 320))]        # crosses the 16 KiB buffer
        elif shape == "big":
            sizes = [rnd.choice([5000, 9000, 16380, 16384, 17000, 40]) for _ in range(rnd.randint(2, 6))]
        else:
            sizes = [rnd.randint(20, 80) for _ in range(3000)]
        if shape in ("many", "huge"):
            # long histories: few rotations (validation cost grows with the number of files in the directory)
            for s in self.sinks:
                if s["kind"] == "rot":
                    s["L"] = max(s["L"], 20000)
        self.payload = {}
        for i, n in enumerate(sizes + [rnd.choice([12, 40, 17000])]):
            head = f"r{i + 1}:".encode()
            body = bytes(rnd.choice(b"abcdefghijklmnopqrstuvwxyz") for _ in range(max(n - len(head) - 1, 0)))
            self.payload[i + 1] = head + body
        self.nmsgs = len(sizes)
        self.fatal_thread = rnd.choice(["main", "main", "thread"])
        self.badflush = self.config != "oneline" and rnd.random() < 0.4
        # one of the sinks may sit behind a filter that rejects the fatal message itself: what it accepted before must
        # reach its file all the same
        self.filtered = rnd.randrange(nsinks) if (self.config != "oneline" and rnd.random() < 0.35) else -1
        self.list_every = self.nmsgs <= 40
        # a housekeeping thread called flush() earlier and is still inside a slow sink at the end of the walk
        self.bgflush = self.config != "oneline" and rnd.random() < 0.3
        # another thread is inside the pipeline (holding the logger's mutex) for 3.6 s when the fatal message arrives
        # - longer than any timeout a log call could give up after; two scenarios of the quick tier, a few more of the other
        self.bgbusy = 3600 if (self.config != "oneline" and sid % 9 == 4) else 0

    def to_json(self, root):
        return {"id": self.id, "root": str(root), "config": self.config, "sinks": self.sinks, "now": R.ms_of(2, 100),
                "msgs": [R.b64(self.payload[i]) for i in range(1, self.nmsgs + 1)], "fatal": R.b64(self.payload[self.nmsgs + 1]),
                "fatalThread": self.fatal_thread, "listEvery": self.list_every, "badflush": self.badflush,
                "filtered": self.filtered, "fatalPrefix": f"r{self.nmsgs + 1}:", "bgflush": self.bgflush, "bgbusy": self.bgbusy}

    def behind_filter(self):
        """the sinks the fatal message does not reach: the one behind the filter, and in the nested configuration also
        the last one when its sub-pipeline hangs below the filtered one (drv_fatal nests the last sink one level deeper)"""
        if self.filtered < 0:
            return set()
        b = {self.filtered}
        n = len(self.sinks)
        if self.config == "nested" and n >= 2 and self.filtered == n - 2:
            b.add(n - 1)
        return b

    def describe(self):
        return {"id": self.id, "config": self.config, "sinks": self.sinks, "messages": self.nmsgs, "fatal_thread": self.fatal_thread, "a_sink_whose_flush_fails_comes_first": self.badflush,
                "sink_behind_a_filter_that_rejects_the_fatal_message": self.filtered,
                "another_thread_is_inside_flush_in_a_slow_last_sink": self.bgflush,
                "another_thread_holds_the_logger_inside_the_pipeline_for_ms": self.bgbusy,
                "fatal_bytes": len(self.payload[self.nmsgs + 1])}


class SinkView:
    """what one sink of the scenario looks like to rotation.translate-style projection"""

    def __init__(self, scn, sink, lens):
        self.file = sink["file"]
        self.payload = scn.payload
        self.lens = lens          # observed line length per record (one-line configuration), or None
        self.suffix = lens is not None


def run_child(bdir, scn, work):
    work = Path(work)
    work.mkdir(parents=True, exist_ok=True)
    root = work / f"f{scn.id}.d"
    inp = work / f"f{scn.id}.json"
    inp.write_text(json.dumps(scn.to_json(root)))
    try:
        p = subprocess.run([str(bdir / "drv_fatal"), str(inp)], stdout=subprocess.PIPE, stderr=subprocess.DEVNULL, timeout=300,
                           env={"LC_ALL": "C.UTF-8", "TZ": "UTC", "PATH": "/usr/bin:/bin"})
        out, code = p.stdout, p.returncode
    except subprocess.TimeoutExpired as ex:
        # a child that neither dies of the fatal message nor ends: what it has written so far is validated, the missing
        # Fatal event makes the run a rejected one
        out, code = ex.stdout or b"", -999
    raw = []
    for line in out.splitlines():
        try:
            raw.append(json.loads(line))
        except ValueError:
            pass
    # what is on disk after the death
    final = []
    for s in scn.sinks:
        d = root / s["sub"]
        for name in sorted(os.listdir(d)):
            st = os.stat(d / name)
            final.append({"sub": s["sub"], "name": name, "size": st.st_size, "mt": st.st_mtime_ns // 1000000,
                          "b64": base64.b64encode((d / name).read_bytes()).decode()})
    inp.unlink()
    subprocess.run(["rm", "-rf", str(root)])
    return raw, final, code


def observed_lengths(scn, final, sub):
    """one-line configuration: a record is the pretty-formatted line; its length is whatever the formatter produced"""
    lens = {}
    import gzip
    for f in final:
        if f["sub"] != sub:
            continue
        data = base64.b64decode(f["b64"])
        if f["name"].endswith(".gz"):
            try:
                data = gzip.decompress(data)
            except Exception:
                continue
        for line in data.split(b"\n"):
            m = re.search(rb"r(\d+):[a-z]*$", line)
            if m and scn.payload.get(int(m.group(1))) and line.endswith(scn.payload[int(m.group(1))]):
                lens[int(m.group(1))] = len(line) + 1
    return lens


class FatalProjector(R.Projector):
    def __init__(self, view, day):
        class _S:
            pass
        s = _S()
        s.file = view.file
        s.payload = view.payload
        super().__init__(s)
        self.view = view

    def parse_records(self, data):
        if not self.view.suffix:
            return super().parse_records(data)
        recs = []
        if data and not data.endswith(b"\n"):
            return None
        for line in data.split(b"\n")[:-1]:
            m = re.search(rb"r(\d+):[a-z]*$", line)
            if not m:
                return None
            rid = int(m.group(1))
            pay = self.view.payload.get(rid)
            if pay is None or not line.endswith(pay) or self.view.lens.get(rid) != len(line) + 1:
                return None
            recs.append(rid)
        return recs


def translate_sink(scn, j, raw, final):
    sink = scn.sinks[j]
    sub = sink["sub"]
    lens = observed_lengths(scn, final, sub) if scn.config == "oneline" else None
    view = SinkView(scn, sink, lens)
    pj = FatalProjector(view, 2)

    def rlen(rid):
        if lens is not None:
            return lens.get(rid, len(scn.payload[rid]) + 1)
        return len(scn.payload[rid]) + 1

    def sel(listing):
        return [f for f in listing if f["sub"] == sub]

    if sink["kind"] == "file":
        cfg = {"L": 0, "N": 1, "startup": False, "daily": False, "gz": False}
    else:
        cfg = {"L": sink["L"], "N": sink["N"], "startup": bool(sink["opts"] & 1), "daily": bool(sink["opts"] & 2),
               "gz": bool(sink["opts"] & 4)}
    evs = []
    info = {"writes": 0, "rotations": 0, "survived": False}
    rec = 0
    for e in raw:
        k = e["e"]
        if k == "Reset":
            evs.append({"e": "Reset", "scn": scn.id * 10 + j, "cfg": cfg, "files": pj.files_of(sel(e["list"])), "rlen": [], "rday": [],
                        "hist": [], "t": [2, 100]})
        elif k == "Begin":
            if e["op"] == "ctor":
                evs.append({"e": "Begin", "op": "ctor", "rec": 0, "len": 0})
            elif e.get("fatal") and j in scn.behind_filter():
                pass            # the fatal message never reaches this sink
            else:
                rec += 1
                evs.append({"e": "Begin", "op": "send", "rec": rec, "len": rlen(rec)})
        elif k == "Sys":
            if not e["f"].startswith(sub + "/"):
                continue
            f = pj.name_of(e["f"][len(sub) + 1:])
            t = pj.name_of(e["t"][len(sub) + 1:]) if "t" in e else R.NONE
            if e["c"] == "write" and f == R.ACTIVE:
                info["writes"] += 1
            if e["c"] == "rename" and e["ok"]:
                info["rotations"] += 1
            evs.append({"e": "Sys", "c": e["c"], "f": f, "t": t, "m": e.get("m", ""), "ok": bool(e["ok"]), "n": int(e.get("n", 0))})
        elif k == "End":
            if "list" in e:
                evs.append({"e": "End", "files": pj.files_of(sel(e["list"]))})
            else:
                evs.append({"e": "EndQ"})
        elif k == "Survived":
            info["survived"] = True
            evs.append({"e": "Survived"})
    evs.append({"e": "Fatal", "files": pj.files_of(sel(final))})
    return evs, info


def run(pid, tier, seed):
    t0 = time.time()
    cfg = f"MC_Rot_C11_{tier}.cfg"
    mc = C.tlc_must_pass(C.run_tlc("MC_Rotation", cfg, coverage=True, timeout=3000, xmx="24g"), cfg)
    if mc.violation:
        raise C.ToolFailure(f"the sink model violates {mc.violation} under {cfg}:\n{mc.out[-3000:]}")
    C.check_coverage(mc, ["MCSend", "MCFlush", "MCInt", "MCSys", "MCFatal"], cfg)
    wit = C.run_tlc("MC_Rotation", "MC_Rot_W_FatalNoFlush.cfg", timeout=600)
    if wit.error or wit.violation != "invariant FatalDurableInv":
        raise C.ToolFailure(f"vacuity: a sink model whose fatal path does not flush must violate FatalDurableInv, got {wit.violation}")

    bdir = C.ensure_harness("plain", ["drv_fatal"])
    work = C.BUILD / "work" / pid
    rnd = random.Random(seed * 2038074743 + 11)
    n = 24 if tier == "quick" else 160
    scns = [FatalScenario(i + 1, rnd, tier) for i in range(n)]
    runs = []
    owner = []
    infos = []
    not_aborted = []
    # the last few scenarios run against the library built WITHOUT thread support (QTLOGGER_NO_THREAD): there the logger
    # is synchronous by construction, and the property is about the synchronous logger
    nt = 5 if tier == "quick" else 30
    bdir_nt = C.ensure_harness("nothread", ["drv_fatal"])
    for i, s in enumerate(scns):
        if i >= len(scns) - nt:
            s.fatal_thread = "main"         # one thread only: a library without thread support is not to be shared
            s.bgflush = False
            s.bgbusy = 0
        raw, final, rc = run_child(bdir_nt if i >= len(scns) - nt else bdir, s, work)
        if rc != -signal.SIGABRT:
            not_aborted.append((s, rc))
        for j in range(len(s.sinks)):
            evs, info = translate_sink(s, j, raw, final)
            runs.append(evs)
            owner.append((s, j))
            infos.append(info)
    viol = 0
    for s, rc in not_aborted:
        rp = C.save_replay(pid, f"noabort_{seed}_{s.id}.json", {"kind": "child-did-not-abort", "scenario": s.describe(), "rc": rc})
        C.report_violation(pid, rp)
        viol += 1
    accepted, failures = C.validate_runs("Trace_Rotation", "Trace_Rotation_fatal.cfg", runs, work, f"v{seed}", chunk=12, timeout=1800)
    for f in failures:
        s, j = owner[f["run_index"]]
        rp = C.save_replay(pid, f"scn_{seed}_{s.id}_{j}.json",
                           {"kind": "trace-rejected", "violated": f.get("violation"), "scenario": s.describe(), "sink": s.sinks[j],
                            "seed": seed, "tier": tier, "matched_in_run": f["matched_in_run"],
                            "rejected_event": {k: v for k, v in (f["event"] or {}).items() if k != "files"},
                            "files_after_death": [{"n": x["n"], "st": x["st"], "nrecs": len(x["recs"])} for x in (f["event"] or {}).get("files", [])],
                            "events_before": [{k: v for k, v in e.items() if k != "files"} for e in f["run"][max(0, f["matched_in_run"] - 8):f["matched_in_run"]]],
                            "tlc": f["tlc_tail"]})
        C.report_violation(pid, rp)
        viol += 1
    nt = sum(1 for (s, j) in owner if s.nmsgs >= 1)
    hist = {}
    for s in scns:
        hist[s.config] = hist.get(s.config, 0) + 1
    C.write_evidence(pid, tier, seed, "model_checking", {
        "states": mc.distinct, "transitions": mc.generated,
        "traces_validated_against_impl": accepted,
        "samples": [scns[0].describe(), scns[-1].describe()],
        "evaluations": len(runs), "distinct_nontrivial": nt,
        "rule": "child processes killed by qFatal: plain and rotating file sinks, 1-3 sinks flat or in nested scoped pipelines or the "
                "one-line configure(async=false), 0-5000 preceding messages of sizes below and above QFile's 16 KiB buffer, fatal raised "
                "on the main or a secondary thread; one validated run per (child, sink); non-trivial = at least one message preceded the "
                "fatal one (something was sitting in the buffer)",
        "exhaustive": False,
        "tlc_exhaustive_config": cfg, "tlc_depth": mc.depth, "tlc_action_coverage": C.cov_table(mc),
        "tlc_witnesses": {"MC_Rot_W_FatalNoFlush.cfg": "violates FatalDurableInv as expected"},
        "children": len(scns), "children_aborted_by_qfatal": len(scns) - len(not_aborted), "configurations": hist,
        "buffer_flush_writes_seen": sum(i["writes"] for i in infos), "rotations_seen": sum(i["rotations"] for i in infos),
        "trace_events": sum(len(r) for r in runs), "rejected_runs": len(failures),
    }, time.time() - t0, viol, [
        "TLC and the Json/IOUtils community modules are trusted",
        "the kernel keeps what write() calls completed before abort(); the files are read after the child was reaped",
        "one-line configuration: a record is the pretty-formatted line ending in the message; its length is taken from the file",
    ])
    return 1 if viol else 0


def replay(pid, path):
    payload = json.loads(open(path).read())
    print(json.dumps(payload.get("scenario"), indent=1))
    print("re-run the campaign with the same seed to reproduce: VERIF_SEED=%s ./check C11 %s" % (payload.get("seed", 1), payload.get("tier", "quick")))
    return run(pid, payload.get("tier", "quick"), payload.get("seed", 1))
