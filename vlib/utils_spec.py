"""utils.cpp conformance (spec/QtlUtils.tla, beyond the listed properties): histories of setMessagePattern /
restorePreviousMessagePattern / foreign qSetMessagePattern calls, one child process per history, and setFilterRules
probes; replayed by TLC through the two-slot machine."""
import json
import re
import subprocess

from . import common as C

DEFAULT = "%{if-category}%{category}: %{endif}%{message}"
PRETTY = ("%{time dd.MM.yyyy hh:mm:ss.zzz} %{if-debug} %{endif}%{if-info}I%{endif}%{if-warning}W%{endif}"
          "%{if-critical}E%{endif}%{if-fatal}F%{endif} [%{category}] %{message}")
TEXT = {"default": DEFAULT, "pretty": PRETTY, "A": "A %{message}", "B": "B|%{message}", "empty": ""}
SPELL = {"default": ["default", "DEFAULT", "Default", DEFAULT], "pretty": ["pretty", "Pretty", "PRETTY", PRETTY]}
PRETTY_RE = re.compile(r"^\d\d\.\d\d\.\d{4} \d\d:\d\d:\d\d\.\d{3} W \[c\] x$")


def name_of_text(t):
    for k, v in TEXT.items():
        if v == t:
            return k
    return "?" + t


def name_of_probe(p):
    if p == "c: x":
        return "default"
    if PRETTY_RE.match(p):
        return "pretty"
    if p == "A x":
        return "A"
    if p == "B|x":
        return "B"
    if p == "":
        return "empty"
    return "?" + p


CATS = ["a", "a.b", "b", "bc", "c.d.e", "default"]


def gen_history(rnd, hid):
    ops = []
    for _ in range(rnd.randint(1, 10)):
        k = rnd.choice(["set", "set", "set", "restore", "restore", "foreign", "rules", "timepath"])
        if k == "timepath":
            fmt = rnd.choice(["", "yyyyMMdd", "yyyy-MM-dd", "MM", "yyyy", "dd.MM.yyyy"])
            blanks = rnd.choice(["", " ", "  "]) if fmt else rnd.choice(["", " "])
            pat = "%{time" + blanks + fmt + "}"
            name = rnd.choice(["app_" + pat + ".log", pat + ".log", "log" + pat, "a%{time yyyy}_b" + pat + ".txt", "plain.log",
                               "x%{time.log", "p" + pat + "}q.log"])
            m = re.match(r"(.*)%\{time *(.*?)\}(.*)", name, re.S)
            ops.append({"op": "timepath", "arg": name, "fmt": m.group(2) if m else ""})
            continue
        if k == "rules":
            rules = []
            for _ in range(rnd.randint(0, 4)):
                cat = rnd.choice(["a", "a.*", "*", "b*", "*.e", "c.d.e", "bc"])
                typ = rnd.choice(["", ".debug", ".info", ".warning", ".critical"])
                rules.append(f"{cat}{typ}={rnd.choice(['true', 'false'])}")
            arg = ""
            for i, r in enumerate(rules):
                arg += r + (rnd.choice([";", ":", ";", "; "]) if i + 1 < len(rules) or rnd.random() < 0.2 else "")
            split = re.split("[;:]", arg)
            probes = [[rnd.choice(CATS), rnd.randrange(0, 3)] for _ in range(6)]
            ops.append({"op": "rules", "arg": arg, "joined": "\n".join(split), "split": split, "probes": probes})
        elif k == "restore":
            ops.append({"op": "restore", "arg": "-"})
        else:
            name = rnd.choice(list(TEXT))
            text = rnd.choice(SPELL[name]) if (k == "set" and name in SPELL) else TEXT[name]
            ops.append({"op": k, "arg": name, "text": text})
    return {"id": hid, "ops": ops}


def campaign(bdir, rnd, n, work):
    work.mkdir(parents=True, exist_ok=True)
    hists = [gen_history(rnd, i + 1) for i in range(n)]
    inp = work / "utils.in"
    inp.write_text("".join(json.dumps(h) + "\n" for h in hists))
    p = subprocess.run([str(bdir / "drv_config"), "utils", str(inp)], capture_output=True, text=True, timeout=900,
                       env={"LC_ALL": "C.UTF-8", "TZ": "UTC", "PATH": "/usr/bin:/bin", "ASAN_OPTIONS": "detect_leaks=0"})
    inp.unlink()
    if p.returncode != 0:
        raise C.ToolFailure("drv_config utils failed: " + p.stderr[-1500:])
    runs = []
    hi = -1
    oi = 0
    for line in p.stdout.splitlines():
        if not line.strip():
            continue
        e = json.loads(line)
        if e["e"] == "Reset":
            hi += 1
            oi = 0
            runs.append([{"e": "Reset"}])
            continue
        op = hists[hi]["ops"][oi]
        oi += 1
        if e["e"] == "TimePath":
            runs[-1].append({"e": "TimePath", "arg": [ord(c) for c in op["arg"]], "fmt": [ord(c) for c in op["fmt"]],
                             "rendered": [[ord(c) for c in r] for r in e["rendered"]],
                             "names": [[ord(c) for c in n] for n in e["names"]]})
        elif e["e"] == "Rules":
            runs[-1].append({"e": "Rules", "arg": [ord(c) for c in op["arg"]], "split": [[ord(c) for c in s] for s in op["split"]],
                             "got": e["got"], "want": e["want"]})
        else:
            ev = {"e": "P", "op": e["op"], "arg": op["arg"], "qt": name_of_probe(e["probe"])}
            ev["ret"] = name_of_text(e["ret"]) if "ret" in e else "-"
            runs[-1].append(ev)
    accepted, failures = C.validate_runs("Trace_Utils", "Trace_Utils.cfg", runs, work, "utils", chunk=300)
    nops = sum(len(r) - 1 for r in runs)
    return accepted, failures, {"histories": len(runs), "steps": nops,
                                "rule_probes": sum(1 for r in runs for e in r if e["e"] == "Rules")}
