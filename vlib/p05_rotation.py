"""C05 C06 C07 C08 C09 C10 - the rotating file sink (spec/QtlRotation.tla).

For each property: (1) TLC exhausts MC_Rotation with the bounds of spec/MC_Rot_<id>_<tier>.cfg (every
invariant and action property of the module, every crash point and fault allowed by that config) and a
set of reachability witnesses shows the run is not vacuous; (2) the property's campaign of histories is
executed on the real RotatingFileSink under the libc interposer and every execution - one event per libc
call, the real directory after every public call - is validated by TLC against the same module."""
import json
import random
import time

from . import common as C
from . import rotation as R

WITNESSES = ["W_NeverRotates", "W_NeverRetires", "W_NeverCompresses", "W_NeverLeftover", "W_NeverFaulted",
             "W_NeverTwoDays", "W_NeverDirectWrite"]
WITNESS_FOR = {
    "C05": ["W_NeverRotates", "W_NeverDirectWrite", "W_NeverTwoDays"],
    "C06": ["W_NeverRetires"],
    "C07": ["W_NeverRotates", "W_NeverDirectWrite"],
    "C08": ["W_NeverCompresses", "W_NeverLeftover"],
    "C09": ["W_NeverTwoDays", "W_NeverRotates"],
    "C10": ["W_NeverLeftover", "W_NeverFaulted"],
}

INV_OF = {
    "ReadBackIsHistory": "C05", "NoDuplicates": "C05",
    "CountBound": "C06", "SurvivorsAreRecentSuffix": "C06", "NoRetentionWhenUnlimited": "C06",
    "NoRotationWhenOne": "C06", "ForeignUntouched": "C06",
    "SizeBound": "C07",
    "GzFaithful": "C08", "T_OrigRemovedOnlyAfterGzClosed": "C08",
    "DaysApart": "C09", "NameCarriesDay": "C09", "T_NamesNeverReused": "C09",
    "FlushedRecoverable": "C10",
}


def mc_part(pid, tier):
    cfg = f"MC_Rot_{pid}_{tier}.cfg"
    mc = C.tlc_must_pass(C.run_tlc("MC_Rotation", cfg, coverage=True, timeout=3400, xmx="24g"), cfg)
    if mc.violation:
        raise C.ToolFailure(f"the rotation model itself violates {mc.violation} under {cfg}:\n{mc.out[-3000:]}")
    need = ["MCConstruct", "MCSend", "MCFlush", "MCDestroy", "MCInt", "MCSys", "MCNextDay"]
    txt = open(C.SPEC / cfg).read()
    if "MaxCrash = 1" in txt:
        need.append("MCCrash")
    if "Ticks = TRUE" in txt:
        need.append("MCTick")
    if "MaxDay = 0" in txt:
        need.remove("MCNextDay")
    C.check_coverage(mc, need, cfg)
    wit = {}
    for w in WITNESS_FOR[pid]:
        r = C.run_tlc("MC_Rotation", f"MC_Rot_{w}.cfg", timeout=600, xmx="8g")
        if r.error:
            raise C.ToolFailure(f"witness run {w} failed:\n{r.error}")
        if r.violation != "invariant " + w:
            raise C.ToolFailure(f"vacuity: witness {w} is not reachable in the exhaustive model ({r.violation})")
        wit[w] = "reached at depth %d" % r.depth
    if pid in ("C06", "C09"):
        # the local date goes back once (another time zone) while time goes on - MC_Rotation!MCZone
        zcfg = f"MC_Rot_{pid}_zone.cfg" if tier == "quick" else f"MC_Rot_{pid}_zone_thorough.cfg"
        z = C.tlc_must_pass(C.run_tlc("MC_Rotation", zcfg, coverage=True, timeout=1800, xmx="16g"), zcfg)
        if z.violation:
            raise C.ToolFailure(f"the rotation model itself violates {z.violation} under {zcfg}:\n{z.out[-3000:]}")
        C.check_coverage(z, ["MCZone", "MCSend", "MCSys"], zcfg)
        wit["zone_config"] = f"{zcfg}: {z.distinct} distinct states, no violation"
        for w, inv in (("W_NeverZonedRotation", "W_NeverZonedRotation"), ("W_ZoneTie", "SurvivorsAreRecentSuffix")):
            r = C.run_tlc("MC_Rotation", f"MC_Rot_{w}.cfg", timeout=600, xmx="8g")
            if r.error or r.violation != "invariant " + inv:
                raise C.ToolFailure(f"witness run {w}: expected a violation of {inv}, got {r.violation} {r.error}")
            wit[w] = "reached at depth %d" % r.depth
    return mc, cfg, wit


def campaign(pid, tier, seed):
    """base scenarios of the property's campaign (crash / fault variants are derived after execution)"""
    rnd = random.Random(seed * 104729 + int(pid[1:]))
    q = tier == "quick"
    scns = []
    nid = [0]

    def add(fn, n, *a):
        for _ in range(n):
            nid[0] += 1
            scns.append(fn(rnd, nid[0], *a))

    if pid == "C05":
        add(R.gen_history, 130 if q else 2500, "C05")
        add(R.gen_bigbuf, 20 if q else 300)
        add(R.gen_blocked_slot, 6 if q else 60)
        add(R.gen_gz_content, 1 if q else 12, "only")      # a rotated file of several MiB goes through compression
        add(R.gen_zone_history, 6 if q else 100, "C05")    # the calendar leaves a day and returns to it
    elif pid == "C06":
        add(R.gen_history, 110 if q else 2200, "C06")
        add(R.gen_index_crossing, 12 if q else 120)
        add(R.gen_zone_history, 10 if q else 150, "C06")
        if not q:
            add(R.gen_index_crossing, 6, 103)
    elif pid == "C07":
        add(R.gen_history, 130 if q else 2500, "C07")
        add(R.gen_bigbuf, 25 if q else 400)
        add(R.gen_zone_history, 8 if q else 120, "C07")    # records dated before the day of the file they arrive at
    elif pid == "C08":
        add(R.gen_history, 70 if q else 1200, "C08")
        add(R.gen_gz_content, 22 if q else 400, not q)
        if q:
            add(R.gen_gz_content, 2, "only")
    elif pid == "C09":
        add(R.gen_history, 130 if q else 2500, "C09")
        add(R.gen_index_crossing, 6 if q else 60)
        add(R.gen_zone_history, 6 if q else 100, "C09")
    elif pid == "C10":
        add(R.gen_history, 6 if q else 40, "C10", 8)
        add(R.gen_history, 4 if q else 30, "C08", 7)
    return scns, rnd, nid[0]


def derive(pid, tier, rnd, executed, next_id):
    """crash-at-every-call and single-fault variants of executed base scenarios"""
    q = tier == "quick"
    out = []
    if pid == "C10":
        for (s, evs, info) in executed:
            if s.N == 1:
                continue
            v, next_id = R.crash_variants(rnd, s, info, next_id, max_per_op=30)
            out += v
            f, next_id = R.fault_variants(rnd, s, info, next_id)
            out += f
        cap = 420 if q else 5000
    elif pid == "C08":
        # crash inside the compression step, fault on creating / opening for compression / deleting the original
        for (s, evs, info) in executed[: (12 if q else 120)]:
            if not info["gz"]:
                continue
            v, next_id = R.crash_variants(
                rnd, s, info, next_id,
                ops_filter=lambda i, op, calls, info=info: any(c == "open" and m == "trunc" for (c, f, m) in info["op_calls"].get(i, [])),
                max_per_op=16)
            out += v[: (6 if q else 40)]
            f, next_id = R.fault_variants(rnd, s, info, next_id)
            out += [x for x in f if x.fault["kind"] in ("creategz", "openin", "unlink")][: (3 if q else 12)]
        cap = 120 if q else 3000
    elif pid == "C05":
        for (s, evs, info) in executed[: (15 if q else 200)]:
            f, next_id = R.fault_variants(rnd, s, info, next_id)
            out += [x for x in f if x.fault["kind"] == "rename"][:2]
        cap = 25 if q else 300
    else:
        cap = 0
    if len(out) > cap:
        out = rnd.sample(out, cap)
    return out, next_id


def nontrivial(pid, s, info):
    if pid == "C05":
        return info["rotations"] >= 1
    if pid == "C06":
        return info["retention"] >= 1
    if pid == "C07":
        return info["rotations"] >= 1 and s.L > 0
    if pid == "C08":
        return info["gz_files_decoded"] >= 1
    if pid == "C09":
        return info["rotations"] >= 1 and info["days"] >= 2 and bool(s.opts & 2)
    if pid == "C10":
        return bool(s.crash or s.fault)
    return False


def violated_invariant(tail):
    import re
    m = re.search(r"Invariant (\w+) is violated", tail or "")
    if m:
        return m.group(1)
    m = re.search(r"Action property (\w+)", tail or "")
    return m.group(1) if m else None


def validate(pid, executed, work, tag, seed):
    runs = [evs for (_, evs, _) in executed]
    accepted, failures = C.validate_runs("Trace_Rotation", "Trace_Rotation.cfg", runs, work, tag, chunk=120,
                                         timeout=1800)
    viol = 0
    for f in failures:
        s = executed[f["run_index"]][0]
        inv = (f.get("violation") or "").split(" ")[-1] if f.get("violation") not in (None, "postcondition") else None
        rp = C.save_replay(pid, f"scn_{seed}_{tag}_{s.id}.json",
                           {"kind": "trace-rejected", "violated": inv, "property_of_invariant": INV_OF.get(inv),
                            "scenario": s.to_dict(), "matched_in_run": f["matched_in_run"], "rejected_event": f["event"],
                            "events_before": f["run"][max(0, f["matched_in_run"] - 12):f["matched_in_run"]],
                            "tlc": f["tlc_tail"]})
        C.report_violation(pid, rp)
        viol += 1
    return accepted, failures, viol


def run(pid, tier, seed):
    t0 = time.time()
    mc, cfg, wit = mc_part(pid, tier)
    bdir = C.ensure_harness("plain", ["drv_rotation"])
    work = C.BUILD / "work" / pid
    scns, rnd, next_id = campaign(pid, tier, seed)
    executed = R.execute(bdir, scns, work, f"b{seed}")
    more, next_id = derive(pid, tier, rnd, executed, next_id + 1000)
    executed2 = R.execute(bdir, more, work, f"d{seed}") if more else []
    executed3 = []
    if pid == "C08":
        # two sinks in two directories, each on its own thread, compressing at the same moment
        twins = [R.Twin(5000 + i, rnd, tier != "quick" and i % 4 == 0) for i in range(6 if tier == "quick" else 60)]
        executed3 = R.execute_twins(bdir, twins, work, f"t{seed}")
    executed4 = []
    acc4, fail4 = 0, []
    if pid == "C05":
        # "whatever the sequence of ... restarts and rotation options": restarts that change the options
        rc = [R.gen_reconfigured(rnd, 7000 + i) for i in range(40 if tier == "quick" else 800)]
        executed4 = R.execute(bdir, rc, work, f"r{seed}")
        acc4, fail4 = C.validate_runs("Trace_Rotation", "Trace_Rotation_reconf.cfg", [e for (_, e, _) in executed4], work, f"rv{seed}",
                                      chunk=120, timeout=1800)
    everything = executed + executed2 + executed3
    accepted, failures, viol = validate(pid, everything, work, f"v{seed}", seed)
    for f in fail4:
        s4 = executed4[f["run_index"]][0]
        rp = C.save_replay(pid, f"reconf_{seed}_{s4.id}.json",
                           {"kind": "trace-rejected", "violated": f.get("violation"), "scenario": s4.to_dict(),
                            "matched_in_run": f["matched_in_run"], "rejected_event": f["event"], "tlc": f["tlc_tail"]})
        C.report_violation(pid, rp)
        viol += 1
    accepted += acc4
    everything = everything + executed4
    if pid == "C06":
        # known finding zone-tie (known_findings.txt): run on the real sink every time; reported as KNOWN-FINDING when it
        # shows exactly as recorded, as a violation when it shows differently, not at all once it is gone
        kz = R.execute(bdir, [R.gen_zone_tie(9001)], work, f"k{seed}")
        _, kfail = C.validate_runs("Trace_Rotation", "Trace_Rotation.cfg", [e for (_, e, _) in kz], work, f"kv{seed}", chunk=5, timeout=600)
        for f in kfail:
            inv = (f.get("violation") or "").split(" ")[-1]
            if inv == "SurvivorsAreRecentSuffix" and "zone-tie" in C.open_findings(pid):
                C.report_known(pid, "key=zone-tie " + C.open_findings(pid)["zone-tie"]["text"])
            else:
                rp = C.save_replay(pid, f"zone_tie_{seed}.json", {"kind": "trace-rejected", "violated": f.get("violation"),
                                                                  "scenario": kz[0][0].to_dict(), "rejected_event": f["event"], "tlc": f["tlc_tail"]})
                C.report_violation(pid, rp)
                viol += 1

    nt = sum(1 for (s, _, info) in everything if nontrivial(pid, s, info))
    tot = lambda k: sum(info[k] for (_, _, info) in everything)
    tags = {}
    for (s, _, _) in everything:
        for t in s.tags:
            tags[t] = tags.get(t, 0) + 1
    samples = []
    for (s, evs, info) in everything[:1] + everything[-1:]:
        samples.append({"scenario": s.id, "cfg": evs[0]["cfg"], "tags": sorted(s.tags),
                        "crash": s.crash, "fault": s.fault, "first_events": evs[1:9]})
    C.write_evidence(pid, tier, seed, "model_checking", {
        "states": mc.distinct, "transitions": mc.generated,
        "traces_validated_against_impl": accepted,
        "samples": samples,
        "evaluations": len(everything), "distinct_nontrivial": nt,
        "rule": "histories of ctor/send/flush/destroy/clock ops (record sizes around the limit, days, restarts, all option "
                "sets, look-alike foreign files, left-over files of an earlier life) executed on the real sink under the libc "
                "interposer; crash variants kill the process before every libc call of an op and restart, fault variants "
                "fail one rename / create-gz / open / delete; every execution validated by TLC against QtlRotation with "
                "all invariants on; non-trivial = " + {
                    "C05": "at least one rotation happened", "C06": "retention removed at least one file",
                    "C07": "a size limit was set and at least one rotation happened",
                    "C08": "at least one compressed file was produced and decoded by the independent decoders",
                    "C09": "daily rotation on, at least two calendar days and one rotation",
                    "C10": "the run contains a crash or an injected I/O failure"}[pid],
        "exhaustive": False,
        "tlc_exhaustive_config": cfg, "tlc_depth": mc.depth, "tlc_action_coverage": C.cov_table(mc),
        "tlc_witnesses": wit,
        "trace_events": sum(len(e) for (_, e, _) in everything), "libc_steps_validated": tot("sys"),
        "rotations": tot("rotations"), "compressions": tot("gz"), "retention_deletes": tot("retention"),
        "gz_files_decoded": tot("gz_files_decoded"),
        "gz_max_decoded_bytes": max([info["gz_max_decoded"] for (_, _, info) in everything] or [0]),
        "max_rotation_index": max([info["max_idx"] for (_, _, info) in everything] or [0]),
        "crash_runs": sum(1 for (s, _, _) in everything if s.crash), "fault_runs": sum(1 for (s, _, _) in everything if s.fault),
        "scenario_tags": tags, "rejected_runs": len(failures),
    }, time.time() - t0, viol, [
        "TLC and the Json/IOUtils community modules are trusted",
        "crash points are system-call boundaries of the interposed calls (open, write, close, rename, link, unlink); "
        "the kernel is assumed to keep what those calls completed",
        "time is virtual and frozen while a public call runs; modification times follow the virtual clock (futimens after "
        "every intercepted write/create)",
        "gzip validity/CRC/ISIZE and record framing are decided by the projection (python zlib + own trailer check, GNU gzip -t), "
        "not by TLA+",
        "the process is not stopped cleanly while records of an earlier day are unflushed or were flushed on a later day "
        "(DESIGN 3.1j); options do not change between restarts",
    ])
    return 1 if viol else 0


def replay(pid, path):
    payload = json.loads(open(path).read())
    if "scenario" not in payload:
        print("replay file has no scenario")
        return 2
    s = R.Scenario.from_dict(payload["scenario"])
    bdir = C.ensure_harness("plain", ["drv_rotation"])
    work = C.BUILD / "work" / pid
    executed = R.execute(bdir, [s], work, "replay")
    accepted, failures, viol = validate(pid, executed, work, "replay", 0)
    for ev in executed[0][1]:
        print(json.dumps(ev)[:400])
    print("accepted" if not failures else "rejected at event %d" % failures[0]["matched_in_run"])
    return 1 if viol else 0
