"""C15 - category rules (spec/QtlCategory.tla, evaluated through QtlPipeline's "cat" handler kind)."""
import json
import random
import time

from . import catrules
from . import common as C
from . import p01_pipeline as P


def u(s):
    return [ord(c) for c in s]


def gen_scenario(rnd, sid):
    pool = catrules.gen_category_pool(rnd)
    rules, text = catrules.gen_rules(rnd, pool, rnd.choice([1, 2, 3, 5, 8]))
    ops = [{"op": "new", "id": 1, "d": {"kind": "pipe", "cls": rnd.choice(["simple", "pipeline"]), "scoped": False}},
           {"op": "root", "p": 1}]
    d = {"kind": "cat", "rules": rules, "rtext": text}
    if ops[0]["d"]["cls"] == "simple" and rnd.random() < 0.5:
        ops.append({"op": "fluent", "p": 1, "id": 2, "d": d})
    else:
        ops.append({"op": "new", "id": 2, "d": d})
        ops.append({"op": "append", "p": 1, "h": 2, "via": "append"})
    ops.append({"op": "new", "id": 3, "d": {"kind": "probe"}})
    ops.append({"op": "append", "p": 1, "h": 3, "via": "append"})
    cats = catrules.probe_categories(rnd, rules, pool)
    # the filter object lives across messages: probe in random order, and some (category, type) pairs again later,
    # so that a verdict that depends on what the filter has seen before is noticed
    probes = [(c, t) for c in cats for t in catrules.ALLTYPES]
    rnd.shuffle(probes)
    probes += [rnd.choice(probes) for _ in range(max(3, len(probes) // 3))]
    for c, t in probes:
        ops.append({"op": "msg", "type": t, "text": [109], "cat": u(c)})
    return {"id": sid, "ops": ops}, rules, text, cats


def run(pid, tier, seed):
    t0 = time.time()
    cfg = "MC_Category.cfg" if tier == "quick" else "MC_Category_thorough.cfg"
    mc = C.tlc_must_pass(C.run_tlc("MC_Category", cfg, timeout=3000, xmx="16g"), cfg)
    if mc.violation:
        raise C.ToolFailure(f"the category reference itself is inconsistent: {mc.violation}\n{mc.out[-3000:]}")
    bdir = C.ensure_harness("asan", ["drv_pipeline"])
    rnd = random.Random(seed * 104729 + 15)
    n = 250 if tier == "quick" else 6000
    scenarios, meta = [], {}
    for i in range(n):
        s, rules, text, cats = gen_scenario(rnd, i + 1)
        scenarios.append(s)
        meta[i + 1] = (rules, text, cats)
    work = C.BUILD / "work" / pid
    runs, crash, inp = P.run_driver(bdir, scenarios, work, f"s{seed}")
    violations = 0
    accepted = 0
    failures = []
    if runs is None:
        rp = C.save_replay(pid, f"crash_{seed}.json", {"kind": "driver-crash", "stderr": crash, "input": str(inp)})
        C.report_violation(pid, rp)
        violations = 1
    else:
        by_id = {s["id"]: s for s in scenarios}
        accepted, failures = C.validate_runs("Trace_Pipeline", "Trace_Pipeline.cfg", runs, work, f"v{seed}", chunk=100)
        for f in failures:
            sid = f["run"][0].get("scn")
            within = f["matched_in_run"]
            # the probe that disagreed = the last Start at or before the rejected event
            start = None
            for e in f["run"][:within + 1]:
                if e["e"] == "Start":
                    start = e
            rp = C.save_replay(pid, f"scn_{seed}_{sid}.json",
                               {"kind": "trace-rejected", "scenario": by_id.get(sid), "rule_text": meta[sid][1],
                                "rules": meta[sid][0], "probe": start, "rejected_event": f["event"], "tlc": f["tlc_tail"]})
            C.report_violation(pid, rp)
            violations += 1
    probes = sum(1 for r in (runs or []) for e in r if e["e"] == "Start")
    rejected = probes - sum(1 for r in (runs or []) for e in r if e["e"] == "H")
    distinct = {(meta[s["id"]][1]) for s in scenarios if any(r["typed"] for r in meta[s["id"]][0])
                or any(42 in r["pat"] for r in meta[s["id"]][0])}
    C.write_evidence(pid, tier, seed, "model_checking", {
        "states": mc.distinct, "transitions": mc.generated,
        "traces_validated_against_impl": accepted,
        "samples": [{"rule_text": meta[k][1], "rules": meta[k][0], "categories": meta[k][2]} for k in list(meta)[:3]],
        "evaluations": probes, "distinct_nontrivial": len(distinct),
        "rule": "seeded rule lists (0-8 rules; wildcards anywhere; typed/untyped; every regex metacharacter in names; random "
                "blanks, ';'/newline separators, malformed lines) rendered to text for the real CategoryFilter; each list is probed "
                "with instances and near-misses of its patterns x all 5 message types; a probe = one message through "
                "[CategoryFilter, probe]; non-trivial = distinct rule texts containing a wildcard or a typed rule",
        "exhaustive": False, "tlc_exhaustive_config": cfg,
        "verdicts_false": rejected, "verdicts_true": probes - rejected, "rejected_runs": len(failures),
    }, time.time() - t0, violations, [
        "the meaning of a rendered rule line is derived from the stated grammar by vlib/catrules.py",
        "categories and patterns are printable ASCII; patterns exclude '=', ';' and blanks (rule syntax characters)",
    ])
    return 1 if violations else 0


replay = P.replay
