"""HttpSink conformance (spec/QtlHttp.tla, beyond the listed properties): a collector on the loopback interface receives
what [probe, HttpSink] of a Logger posts; TLC replays Send / Req events through QtlHttp (one POST per message, body =
formatted text in UTF-8, configured target / content type / headers).  Needs the harness flavour "net" (the library
built with QTLOGGER_NETWORK)."""
import json
import subprocess

from . import common as C

TEXTS = ["started", "grüße aus köln", "quote \" and \\ backslash", "line1\nline2", "", "日本語 ログ", "x" * 900, "emoji \U0001F600 done"]


def gen_scenario(rnd, sid):
    hdrs = []
    if rnd.random() < 0.5:
        hdrs.append(["X-Sentry-Auth", "Sentry sentry_key=" + "".join(rnd.choice("0123456789abcdef") for _ in range(12))])
    if rnd.random() < 0.3:
        hdrs.append(["X-App", rnd.choice(["qtlogger", "demo app"])])
    return {"id": sid, "path": rnd.choice(["/", "/log", "/api/42/store/?sentry_version=7&sentry_key=abc"]),
            "ctype": rnd.choice(["", "", "application/json; charset=utf-8", "text/plain"]), "hdrs": hdrs,
            "format": rnd.random() < 0.5,
            "msgs": [[ord(c) if ord(c) < 0x10000 else 0xFFFD for c in rnd.choice(TEXTS)] for _ in range(rnd.randint(1, 9))]}


def campaign(rnd, n, work):
    bdir = C.ensure_harness("net", ["drv_http"])
    work.mkdir(parents=True, exist_ok=True)
    scns = [gen_scenario(rnd, i + 1) for i in range(n)]
    inp = work / "http.ndjson"
    inp.write_text("".join(json.dumps(s) + "\n" for s in scns))
    p = subprocess.run([str(bdir / "drv_http"), str(inp)], capture_output=True, text=True, timeout=600,
                       env={"LC_ALL": "C.UTF-8", "PATH": "/usr/bin:/bin", "QT_LOGGING_RULES": "*.debug=false"})
    inp.unlink()
    if p.returncode != 0:
        raise C.ToolFailure(f"drv_http exited {p.returncode}: {p.stderr[-1500:]}")
    runs, cur = [], None
    for line in p.stdout.splitlines():
        try:
            e = json.loads(line)
        except ValueError:
            continue
        if e["e"] == "Reset":
            cur = [e]
            runs.append(cur)
        elif cur is not None:
            cur.append(e)
    info = {"runs": len(runs), "posts_sent": sum(1 for r in runs for e in r if e["e"] == "Send"),
            "requests_received": sum(1 for r in runs for e in r if e["e"] == "Req")}
    accepted, failures = C.validate_runs("Trace_Http", "Trace_Http.cfg", runs, work, "http", chunk=40, timeout=900)
    return accepted, failures, info
