"""C12 - pattern formatting follows the documented mini-language (spec/QtlPattern.tla).

The generator builds token lists (literal text, built-in placeholders, custom attributes in every documented form,
type conditionals, format specifications), renders them to pattern text by the documented syntax, lets the real
PatternFormatter format a generated message, and TLC checks output = Format(tokens, type)."""
import json
import random
import subprocess
import time

from . import common as C

TYPES = ["debug", "info", "warning", "critical", "fatal"]
# pool of code units for values and literal text: ASCII incl. every character of the pattern syntax, Latin-1,
# BMP, U+200B (the code's former in-band marker), a surrogate pair, line separators
POOL = [ord(c) for c in "abcXYZ019 %{}:?,!<>^*#.-_/\\[]()\"'\t"] + [0xE9, 0x416, 0x4E2D, 0x200B, 0x200B, 0x2028, 0xFEFF, 0x301]
ASTRAL = [[0xD83D, 0xDE42], [0xD835, 0xDC00]]
FILLS = [" ", "*", "0", "-", ".", "#", "x", "_", "é", "=", "~", "<", ">", "^", "!", "9"]
ATTR_NAMES = ["user", "seq_number", "appname", "k1", "a.b", "x_y", "Имя", "名前", "n-1"]
TIME_FMTS = ["", "yyyy-MM-dd hh:mm:ss", "hh:mm:ss.zzz", "dd.MM.yyyy", "yyyy-MM-ddThh:mm:ss.zzz", "HH:mm"]


def u(s):
    out = []
    for ch in s:
        o = ord(ch)
        if o > 0xFFFF:
            o -= 0x10000
            out += [0xD800 + (o >> 10), 0xDC00 + (o & 0x3FF)]
        else:
            out.append(o)
    return out


def rand_text(rnd, lo, hi, avoid=()):
    n = rnd.randint(lo, hi)
    out = []
    while len(out) < n:
        if rnd.random() < 0.05 and n - len(out) >= 2:
            out += rnd.choice(ASTRAL)
        else:
            c = rnd.choice(POOL)
            if c in avoid:
                continue
            out.append(c)
    return out


NOSPEC = {"on": False, "fill": 32, "fillgiven": False, "align": "none", "width": 0, "bang": False}


def rand_spec(rnd, vlen):
    if rnd.random() < 0.45:
        return dict(NOSPEC), ""
    width = max(1, rnd.choice([vlen - 2, vlen - 1, vlen, vlen + 1, vlen + 3, 1, 8, 12]))
    bang = rnd.random() < 0.5
    form = rnd.choice(["fillalign", "align", "align", "width!"])
    if form == "width!":
        return {"on": True, "fill": 32, "fillgiven": False, "align": "none", "width": width, "bang": True}, f"{width}!"
    align = rnd.choice("<>^")
    if form == "align":
        return ({"on": True, "fill": 32, "fillgiven": False, "align": align, "width": width, "bang": bang},
                f"{align}{width}" + ("!" if bang else ""))
    fill = rnd.choice(FILLS)
    return ({"on": True, "fill": ord(fill), "fillgiven": True, "align": align, "width": width, "bang": bang},
            f"{fill}{align}{width}" + ("!" if bang else ""))


SIGS_PLAIN = ["void MyClass::myMethod(int, QString)", "int main(int, char**)", "f", "", "virtual void A::B::run() const",
              "QString Widget::title() const", "static int helper(long)", "unsigned long long ns::count(unsigned int)",
              "Foo::Foo(int)", "Foo::~Foo()", "bool a::b::c::d::check(const QString&, int) const"]


def clean_func(sig):
    """mirror of QtlPattern!CleanFunc, used only to label the case; the specification recomputes it"""
    p = sig.index(40) if 40 in sig else len(sig)
    head = sig[:p]
    s = len(head) - head[::-1].index(32) if 32 in head else 0
    return sig[s:p]


class Case:
    def __init__(self, cid, rnd):
        self.id = cid
        r = rnd
        self.type = r.choice(TYPES)
        self.text = rand_text(r, 0, 40) if r.random() < 0.9 else []
        # category and file travel as UTF-8 C strings; QString::fromUtf8 takes a leading U+FEFF for a byte-order mark
        # (Qt's decoding, not this library's): not generated at the first position
        self.cat = rand_text(r, 1, 12, avoid=(0x2028, 0xFEFF)) if r.random() < 0.8 else u("default")
        self.file = u(r.choice(["/home/u/proj/src/", "C:\\proj\\", "", "rel/dir/", "/a b/"])) + rand_text(r, 1, 8, avoid=(47, 92, 0x2028, 0xFEFF)) + u(".cpp")
        self.line = r.choice([0, 1, 42, 99999, 123456])
        # signatures of the plain kind "[qualifiers] type name(args) [const]" (no templates, operators, function
        # pointers): for these the cleaned name of %{func} is defined without doubt (QtlPattern!CleanFunc); the last
        # entry is outside that grammar and only ever shown in full (%{function})
        self.func_plain = r.random() < 0.85
        self.func = u(r.choice(SIGS_PLAIN) if self.func_plain else
                      "static bool ns::T<int>::op(const std::map<int, int>&) const")
        self.attrs = {}
        for name in r.sample(ATTR_NAMES, r.randint(0, 4)):
            x = r.random()
            if x < 0.08:
                self.attrs[name] = ("sn", [])          # present, but a null QString (e.g. appversion never set)
            elif x < 0.14:
                self.attrs[name] = ("z", [])           # present, but an invalid QVariant
            elif x < 0.3:
                self.attrs[name] = ("i", r.choice([0, 7, 42, 100000]))
            else:
                self.attrs[name] = ("s", rand_text(r, 0, 14))
        self.tokens = []       # spec-level tokens; placeholders carry a value reference until the driver ran
        self.pattern = []      # code units of the pattern text
        self.timefmts = set()
        self.features = set()
        self.build(r)

    # -- rendering helpers ----------------------------------------------------------------------
    def emit_lit(self, text):
        if not text:
            return
        if self.tokens and self.tokens[-1]["k"] == "lit":
            self.tokens[-1]["text"] += text         # adjacent literal text is one literal
        else:
            self.tokens.append({"k": "lit", "text": list(text)})
        for c in text:
            self.pattern += [37, 37] if c == 37 else [c]

    def emit_ph(self, name_text, ref, spec, spec_text):
        self.tokens.append({"k": "ph", "ref": ref, "spec": spec})
        self.pattern += u("%{" + name_text + (":" + spec_text if spec_text else "") + "}")

    def value_len(self, ref):
        if ref == "message":
            return len(self.text)
        if ref == "category":
            return len(self.cat)
        if ref == "file":
            return len(self.file)
        if ref == "type":
            return len(self.type)
        return 8

    def build(self, r):
        n = r.randint(1, 12)
        in_if = False
        i = 0
        while i < n:
            i += 1
            x = r.random()
            if x < 0.30:
                # literal text that cannot be mistaken for the start of a placeholder
                t = rand_text(r, 1, 10)
                while t and t[-1] == 37:        # a '%' right before a placeholder's "%{" is still fine (%%), keep it simple
                    t = t[:-1] + [ord("x")]
                self.emit_lit(t)
                if 0x200B in t:
                    self.features.add("zwsp-in-literal")
            elif x < 0.62:
                ref = r.choice(["message", "message", "type", "category", "file", "line", "function", "threadid", "qthreadptr",
                                "shortfile", "time"] + (["func", "func"] if self.func_plain else []))
                name = ref
                if ref == "shortfile" and r.random() < 0.5:
                    base = r.choice(["/home/u/proj", "/home/u/proj/", "C:\\proj", "/nomatch"])
                    name = "shortfile " + base
                    ref = "shortfile:" + base
                if ref == "time":
                    fmt = r.choice(TIME_FMTS)
                    self.timefmts.add(fmt)
                    name = "time" + (" " + fmt if fmt else "")
                    ref = "time:" + fmt
                    if ":" in fmt and r.random() < 0.5:
                        # a format specification after a time format that itself contains colons
                        pass
                spec, st = rand_spec(r, self.value_len(ref))
                if spec["on"]:
                    self.features.add("spec:" + ("trunc-only" if spec["bang"] and not spec["fillgiven"] else
                                                  "trunc-pad" if spec["bang"] else "pad"))
                self.emit_ph(name, ref, spec, st)
            elif x < 0.80:
                name = r.choice(ATTR_NAMES)
                has = name in self.attrs
                form = r.choice(["plain", "opt", "optN", "optNM", "optM"])
                if not has and form == "plain":
                    form = "opt"                    # an absent non-optional attribute is documented as an error
                nn = mm = 0
                suffix = ""
                if form == "opt":
                    suffix = "?"
                elif form == "optN":
                    nn = r.randint(1, 3)
                    suffix = f"?{nn}"
                elif form == "optNM":
                    nn, mm = r.randint(0, 3), r.randint(1, 3)
                    suffix = f"?{nn},{mm}"
                elif form == "optM":
                    mm = r.randint(1, 3)
                    suffix = f"?,{mm}"
                # the documented use: literal text of at least N units before, of at least M units after
                if nn:
                    self.emit_lit(rand_text(r, nn, nn + 3, avoid=(37,)))
                vlen = len(self.attrs[name][1]) if has and self.attrs[name][0] in ("s", "sn", "z") else 3
                spec, st = rand_spec(r, vlen)
                tok = {"k": "attr", "name": name, "has": has, "opt": form != "plain", "n": nn, "m": mm, "spec": spec}
                self.tokens.append(tok)
                self.pattern += u("%{" + name + suffix + (":" + st if st else "") + "}")
                if mm and r.random() < 0.7:
                    self.emit_lit(rand_text(r, mm, mm + 3, avoid=(37,)))
                # (otherwise the removal count stays pending: it adds up with the next absent attribute's, is dropped by
                # the next value that is not empty, and applies to the next literal text)
                if not has and (nn or mm):
                    self.features.add("optional-removal")
                if has and self.attrs[name][0] == "s" and 0x200B in self.attrs[name][1]:
                    self.features.add("zwsp-in-value")
            elif x < 0.92 and not in_if:
                t = r.choice(TYPES)
                self.tokens.append({"k": "if", "type": t})
                self.pattern += u("%{if-" + t + "}")
                in_if = True
                self.features.add("conditional")
            elif in_if:
                self.tokens.append({"k": "endif"})
                self.pattern += u("%{endif}")
                in_if = False
        if not any(t["k"] in ("lit", "ph", "attr") for t in self.tokens):
            # a pattern without any text or placeholder is outside the documentation (the code then returns the message)
            self.emit_lit(rand_text(r, 1, 5))
        if 0x200B in self.text:
            self.features.add("zwsp-in-value")

    def to_json(self):
        attrs = []
        for k, (t, v) in self.attrs.items():
            attrs.append({"k": u(k), "t": t, "v": v if t in ("s", "sn", "z") else [], "i": v if t == "i" else 0})
        return {"id": self.id, "pattern": self.pattern, "type": self.type, "text": self.text, "cat": self.cat, "file": self.file,
                "line": self.line, "func": self.func, "attrs": attrs, "timefmts": sorted(self.timefmts)}

    # -- values -----------------------------------------------------------------------------------
    def shortfile(self, base):
        f = self.file
        if base is None:
            if 47 in f:
                return f[len(f) - f[::-1].index(47):]
            if 92 in f:
                return f[len(f) - f[::-1].index(92):]
            return f
        b = u(base.strip())
        if f[:len(b)] == b:
            rest = f[len(b):]
            if rest[:1] in ([47], [92]):
                rest = rest[1:]
            return rest
        return f

    def resolve(self, out):
        toks = []
        for t in self.tokens:
            if t["k"] == "lit":
                toks.append({"k": "lit", "text": t["text"]})
            elif t["k"] == "ph":
                ref = t["ref"]
                if ref == "message":
                    v = self.text
                elif ref == "type":
                    v = u(self.type)
                elif ref == "category":
                    v = self.cat
                elif ref == "file":
                    v = self.file
                elif ref == "line":
                    v = u(str(self.line))
                elif ref == "function":
                    v = self.func
                elif ref == "func":
                    v = clean_func(self.func)
                elif ref == "threadid":
                    v = out["threadid"]
                elif ref == "qthreadptr":
                    v = out["qthreadptr"]
                elif ref == "shortfile":
                    v = self.shortfile(None)
                elif ref.startswith("shortfile:"):
                    v = self.shortfile(ref[10:])
                else:
                    v = out["times"][ref[5:]]
                toks.append({"k": "ph", "val": v, "spec": t["spec"]})
            elif t["k"] == "attr":
                v = []
                if t["has"]:
                    ty, val = self.attrs[t["name"]]
                    v = u(str(val)) if ty == "i" else val
                toks.append({"k": "attr", "has": t["has"], "val": v, "opt": t["opt"], "n": t["n"], "m": t["m"], "spec": t["spec"]})
            else:
                toks.append(dict(t))
        ev = {"e": "Case", "id": self.id, "tokens": toks, "type": self.type, "out": out["out"]}
        if any(t["k"] == "ph" and t.get("ref") == "func" for t in self.tokens):
            ev["sig"] = self.func                   # Trace_Pattern: the value of %{func} is CleanFunc(sig)
            ev["clean"] = clean_func(self.func)
        return ev


def run_driver(bdir, cases, work, tag):
    work.mkdir(parents=True, exist_ok=True)
    inp = work / f"{tag}.cases"
    with open(inp, "w") as f:
        for c in cases:
            f.write(json.dumps(c.to_json(), separators=(",", ":")) + "\n")
    p = subprocess.run([str(bdir / "drv_pattern"), str(inp)], capture_output=True, text=True, timeout=900,
                       env={"LC_ALL": "C.UTF-8", "TZ": "UTC", "PATH": "/usr/bin:/bin"})
    inp.unlink()
    if p.returncode != 0:
        return None, p.stderr[-3000:]
    outs = {}
    for line in p.stdout.splitlines():
        if line.strip():
            o = json.loads(line)
            outs[o["id"]] = o
    return outs, None


def validate_cases(events, work, tag, chunk=2500):
    """every event is independent: a rejected one is isolated and the rest of its chunk goes on"""
    accepted = 0
    rejected = []
    pos = 0
    n = 0
    while pos < len(events):
        part = events[pos:pos + chunk]
        pos += chunk
        while part:
            n += 1
            tp = C.write_ndjson(work / f"{tag}.{n}.ndjson", part)
            ok, matched, res = C.validate_trace("Trace_Pattern", "Trace_Pattern.cfg", tp, len(part), timeout=1500)
            tp.unlink()
            if ok:
                accepted += len(part)
                break
            accepted += matched
            rejected.append(part[matched])
            part = part[matched + 1:]
            if len(rejected) >= 40:
                return accepted, rejected
    return accepted, rejected


def run(pid, tier, seed):
    t0 = time.time()
    cfg = "MC_Pattern.cfg" if tier == "quick" else "MC_Pattern_thorough.cfg"
    mc = C.run_tlc("MC_Pattern", cfg, timeout=3000, xmx="16g", workers=4)
    if mc.error or mc.violation:
        raise C.ToolFailure(f"the pattern transcription fails its own laws ({mc.violation}):\n{(mc.error or mc.out)[-3000:]}")
    sizes = [ln for ln in mc.prints if "MC_PATTERN" in ln]
    bdir = C.ensure_harness("asan", ["drv_pattern"])
    work = C.BUILD / "work" / pid
    rnd = random.Random(seed * 48271 + 12)
    n = 4000 if tier == "quick" else 120000
    cases = [Case(i + 1, rnd) for i in range(n)]
    outs, crash = run_driver(bdir, cases, work, f"c{seed}")
    viol = 0
    accepted = 0
    rejected = []
    if outs is None:
        rp = C.save_replay(pid, f"crash_{seed}.json", {"kind": "driver-crash", "stderr": crash})
        C.report_violation(pid, rp)
        viol = 1
    else:
        events = [c.resolve(outs[c.id]) for c in cases if c.id in outs]
        if len(events) != len(cases):
            raise C.ToolFailure("drv_pattern did not answer every case")
        accepted, rejected = validate_cases(events, work, f"v{seed}")
        by_id = {c.id: c for c in cases}
        for ev in rejected:
            c = by_id[ev["id"]]
            rp = C.save_replay(pid, f"case_{seed}_{c.id}.json",
                               {"kind": "output-differs", "case": c.to_json(), "tokens": ev["tokens"], "type": ev["type"],
                                "implementation_output": ev["out"],
                                "pattern_text": "".join(chr(x) if x < 0xD800 or x > 0xDFFF else "?" for x in c.pattern),
                                "output_text": "".join(chr(x) if x < 0xD800 or x > 0xDFFF else "?" for x in ev["out"])})
            C.report_violation(pid, rp)
            viol += 1
    feats = {}
    nontrivial = 0
    for c in cases:
        for f in c.features:
            feats[f] = feats.get(f, 0) + 1
        if c.features & {"optional-removal", "conditional", "spec:pad", "spec:trunc-only", "spec:trunc-pad"}:
            nontrivial += 1
    C.write_evidence(pid, tier, seed, "model_checking", {
        "states": mc.distinct, "transitions": mc.generated,
        "traces_validated_against_impl": accepted,
        "samples": [{"pattern": "".join(chr(x) if x < 0xD800 or x > 0xDFFF else "?" for x in c.pattern), "type": c.type}
                    for c in cases[:3]],
        "evaluations": len(cases), "distinct_nontrivial": nontrivial,
        "rule": "seeded token lists (<= 12 tokens: literal text, every built-in placeholder except %{func} and %{time process|boot}, "
                "custom attributes in the forms name / name? / name?N / name?N,M / name?,M, type conditionals, format specifications in "
                "the three documented modes) rendered to pattern text; values over a pool containing every character of the pattern "
                "syntax, U+200B, surrogate pairs, U+2028; the real PatternFormatter's output must equal Format(tokens, type); "
                "non-trivial = the pattern uses a format specification, a conditional or an absent optional attribute with removal",
        "exhaustive": False,
        "tlc_laws": {"config": cfg, "universe": sizes, "checked": ["FieldLaws (WidthLaw, VerbatimLaw)", "TwoFormulations (Format = Format2)"]},
        "feature_histogram": feats, "rejected_cases": len(rejected),
    }, time.time() - t0, viol, [
        "TLC and the Json/IOUtils community modules are trusted",
        "the meaning of a token list follows docs/api/formatters.md; the harness renders it to pattern text (vlib/p12_pattern.py)",
        "undocumented corners are not generated: an absent non-optional attribute, ?N,M not surrounded by literal text, ':' or '}' as fill, "
        "%{func}, %{time process|boot}; thread id, QThread pointer and formatted times are taken from the library/Qt",
    ])
    return 1 if viol else 0


def replay(pid, path):
    payload = json.loads(open(path).read())
    if "case" not in payload:
        print("nothing to replay")
        return 2
    bdir = C.ensure_harness("asan", ["drv_pattern"])
    work = C.BUILD / "work" / pid
    work.mkdir(parents=True, exist_ok=True)
    inp = work / "replay.cases"
    inp.write_text(json.dumps(payload["case"]) + "\n")
    p = subprocess.run([str(bdir / "drv_pattern"), str(inp)], capture_output=True, text=True, timeout=60,
                       env={"LC_ALL": "C.UTF-8", "TZ": "UTC", "PATH": "/usr/bin:/bin"})
    out = json.loads(p.stdout.splitlines()[0])
    ev = {"e": "Case", "id": 1, "tokens": payload["tokens"], "type": payload["type"], "out": out["out"]}
    acc, rej = validate_cases([ev], work, "replay")
    print("pattern:", payload.get("pattern_text"))
    print("output :", "".join(chr(x) if x < 0xD800 or x > 0xDFFF else "?" for x in out["out"]))
    if rej:
        C.report_violation(pid, path)
        return 1
    print("accepted")
    return 0
