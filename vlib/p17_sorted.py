"""C17 - SortedPipeline keeps handler classes in order (spec/QtlSorted.tla)."""
import itertools
import json
import random
import subprocess
import time

from . import common as C

CORE_OPS = "afFsp12345X"            # the calls named in the property statement
ALL_OPS = "afFsp12345vwxyzXnmoqrABGSP"   # + clear(type) spellings, null arguments, objects passed before


def gen_sequences(tier, seed):
    rnd = random.Random(seed)
    seqs = []
    exh = 4 if tier == "quick" else 5
    seqs += ["".join(t) for t in itertools.product(CORE_OPS, repeat=exh)]
    # ... and every short sequence in which handler objects are passed a second time
    seqs += ["".join(t) for t in itertools.product("afsFABS", repeat=exh) if any(c in "ABS" for c in t)]
    n_rand = 400 if tier == "quick" else 6000
    for _ in range(n_rand):
        n = rnd.randint(1, 40)
        # bias towards appends so lists get long, with bursts of clears
        w = [6 if c in "afFsp" else 3 if c in "ABGSP" else 1 for c in ALL_OPS]
        seqs.append("".join(rnd.choices(ALL_OPS, weights=w, k=n)))
    return seqs, exh


def run_driver(bdir, seqs, workdir, tag):
    workdir.mkdir(parents=True, exist_ok=True)
    inp = workdir / f"{tag}.seqs"
    inp.write_text("\n".join(seqs) + "\n")
    p = subprocess.run([str(bdir / "drv_sorted"), str(inp)], capture_output=True, text=True, timeout=600)
    inp.unlink()
    if p.returncode != 0:
        # sanitizer report / crash while executing spec-generated calls: the implementation could
        # not follow the behaviour at all
        return None, p.stderr[-3000:]
    events = [json.loads(l) for l in p.stdout.splitlines() if l.strip()]
    return C.split_runs(events), None


def run(pid, tier, seed):
    t0 = time.time()
    cfg = "MC_Sorted.cfg" if tier == "quick" else "MC_Sorted_thorough.cfg"
    mc = C.tlc_must_pass(C.run_tlc("MC_Sorted", cfg, coverage=True, timeout=1500), "MC_Sorted")
    if mc.violation:
        raise C.ToolFailure(f"the design model itself violates {mc.violation}:\n{mc.out[-3000:]}")
    C.check_coverage(mc, ["AppendH", "SetFormatter", "AppendNull", "Clear", "ClearAll"], cfg)

    # beyond the bound of the exhaustive run: the conjunction of the C17 invariants (with the bookkeeping facts about
    # identities and call numbers) is inductive - checked symbolically by Apalache for every handler list of up to 5
    # entries and every table of up to 4 handler objects (spec/ApaSorted.tla); thorough tier only (about 4 minutes)
    apa = {}
    if tier == "thorough":
        apa["base: Init => IndInv"] = C.run_apalache("ApaSorted", "Init", "IndInv", 0, 600)
        apa["step: IndInv /\\ Next => IndInv'"] = C.run_apalache("ApaSorted", "IndInit", "IndInv", 1, 1500)
        apa["witness: the step starts from full-length lists (must be Error)"] = C.run_apalache("ApaSorted", "IndInit", "NotFull", 0, 600)
        if apa["base: Init => IndInv"] == "Error" or apa["step: IndInv /\\ Next => IndInv'"] == "Error":
            raise C.ToolFailure(f"the design model is not inductive the way ApaSorted states it: {apa}")
        if apa["witness: the step starts from full-length lists (must be Error)"] == "NoError":
            raise C.ToolFailure("ApaSorted's start predicate admits no full-length list: the inductive step is vacuous")

    bdir = C.ensure_harness("asan", ["drv_sorted"])
    seqs, exh = gen_sequences(tier, seed)
    work = C.BUILD / "work" / pid
    runs, crash = run_driver(bdir, seqs, work, f"t{seed}")
    violations = 0
    failures = []
    accepted = 0
    if runs is None:
        rp = C.save_replay(pid, f"crash_{seed}.json", {"kind": "driver-crash", "stderr": crash})
        C.report_violation(pid, rp)
        violations = 1
    else:
        accepted, failures = C.validate_runs("Trace_Sorted", "Trace_Sorted.cfg", runs, work, f"v{seed}",
                                             chunk=4000)
        for f in failures:
            seq = f["run"][0].get("seq")
            rp = C.save_replay(pid, f"seq_{seq}.json",
                               {"kind": "trace-rejected", "seq": seq, "matched_in_run": f["matched_in_run"],
                                "rejected_event": f["event"], "run": f["run"], "tlc": f["tlc_tail"]})
            C.report_violation(pid, rp)
            violations += 1

    nontrivial = set()
    samples = []
    if runs:
        for r in runs:
            seq = r[0].get("seq", "")
            # non-trivial: at least two different classes are inserted, i.e. ordering matters
            if len({c for c in seq if c in "afFsp"}) >= 2:
                nontrivial.add(seq)
        samples = [{"calls": r[0].get("seq"), "final_list": r[-2].get("hs") if len(r) > 2 else [],
                    "exec_order": r[-1].get("order")} for r in runs[-3:]]
    C.write_evidence(pid, tier, seed, "model_checking", {
        "states": mc.distinct, "transitions": mc.generated,
        "traces_validated_against_impl": accepted,
        "samples": samples,
        "evaluations": len(seqs), "distinct_nontrivial": len(nontrivial),
        "rule": f"TLC exhaustive: all call sequences up to MaxCalls of {cfg}; implementation traces: every "
                f"sequence of exactly {exh} calls over the 11 calls named in the statement plus seeded random "
                "sequences (<= 40 calls, incl. clear(type) spellings and null arguments); every call's resulting "
                "handlers() list and the final execution order are validated by TLC against QtlSorted; non-trivial = "
                "the sequence inserts at least two different classes",
        "exhaustive": True,
        "tlc_depth": mc.depth, "tlc_action_coverage": C.cov_table(mc),
        "trace_events": sum(len(r) for r in runs) if runs else 0,
        "rejected_runs": len(failures),
        "apalache_inductive_invariant": apa or "thorough tier only",
    }, time.time() - t0, violations, [
        "TLC and the Json/IOUtils community modules are trusted",
        "handler identity = order of the insertion call (the driver numbers handlers as it creates them)",
    ])
    return 1 if violations else 0


def replay(pid, path):
    payload = json.loads(open(path).read())
    seq = payload.get("seq")
    if seq is None:
        print("replay file has no call sequence")
        return 2
    bdir = C.ensure_harness("asan", ["drv_sorted"])
    work = C.BUILD / "work" / pid
    runs, crash = run_driver(bdir, [seq], work, "replay")
    if runs is None:
        print(crash)
        C.report_violation(pid, path)
        return 1
    acc, failures = C.validate_runs("Trace_Sorted", "Trace_Sorted.cfg", runs, work, "replay")
    for ev in runs[0]:
        print(json.dumps(ev))
    if failures:
        print("rejected at event", failures[0]["matched_in_run"], json.dumps(failures[0]["event"]))
        C.report_violation(pid, path)
        return 1
    print("accepted")
    return 0
