"""./check --selftest : binding demonstrations.

For every trace specification one small execution of the real code is recorded and validated (must be accepted); then
one field of one recorded event is corrupted (or one event removed) and the trace is validated again (must be rejected).
This shows that the trace specifications constrain state, not just event names.  Source-level demonstrations are the
seeded changes under seeded/ (each compiles, passes the 349 tests and is rejected by its check - DESIGN 12.6)."""
import copy
import json
import random
import sys

from . import common as C


def _verdict(name, ok_run, bad_runs):
    acc = "accepted" if ok_run else "REJECTED"
    print(f"{name:10s} recorded execution: {acc}")
    good = ok_run
    for what, rejected in bad_runs:
        print(f"{'':10s} {what}: {'rejected' if rejected else 'ACCEPTED (binding too weak!)'}")
        good = good and rejected
    return good


def st_sorted(work):
    from . import p17_sorted as P
    bdir = C.ensure_harness("asan", ["drv_sorted"])
    runs, _ = P.run_driver(bdir, ["afFsp", "sfa1F"], work, "st")
    acc, fails = C.validate_runs("Trace_Sorted", "Trace_Sorted.cfg", runs, work, "st_ok")
    bad = copy.deepcopy(runs)
    for e in bad[0]:
        if e.get("hs") and len(e["hs"]) >= 2:
            e["hs"][0], e["hs"][1] = e["hs"][1], e["hs"][0]
            break
    a2, f2 = C.validate_runs("Trace_Sorted", "Trace_Sorted.cfg", bad, work, "st_bad")
    return _verdict("QtlSorted", not fails, [("two handlers swapped in one handlers() list", bool(f2))])


def st_pipeline(work):
    from . import p01_pipeline as P
    bdir = C.ensure_harness("asan", ["drv_pipeline"])
    rnd = random.Random(3)
    scns = [P.gen_tree_scenario(rnd, i + 1, "C01") for i in range(6)]
    runs, _, _ = P.run_driver(bdir, scns, work, "st")
    acc, fails = C.validate_runs("Trace_Pipeline", "Trace_Pipeline.cfg", runs, work, "st_ok")
    bad = copy.deepcopy(runs)
    done = False
    for r in bad:
        for i, e in enumerate(r):
            if e["e"] == "H" and not done:
                del r[i]
                done = True
                break
    a2, f2 = C.validate_runs("Trace_Pipeline", "Trace_Pipeline.cfg", bad, work, "st_bad")
    return _verdict("QtlPipeline", not fails, [("one handler invocation removed", bool(f2))])


def st_rotation(work):
    from . import rotation as R
    bdir = C.ensure_harness("plain", ["drv_rotation"])
    rnd = random.Random(4)
    s = R.Scenario(1, "app.log", "rot", 20, 3, 4, now=(2, 0))
    g = R.HistoryGen(rnd, s)
    g.op_ctor()
    for _ in range(6):
        g.op_send(12, fancy=False)
    g.op_destroy()
    ex = R.execute(bdir, [s], work, "st")
    runs = [ex[0][1]]
    acc, fails = C.validate_runs("Trace_Rotation", "Trace_Rotation.cfg", runs, work, "st_ok")
    bad1 = copy.deepcopy(runs)
    for e in bad1[0]:
        if e["e"] == "End" and any(f["recs"] for f in e["files"]):
            for f in e["files"]:
                if f["recs"]:
                    f["recs"] = f["recs"][:-1]
                    break
            break
    bad2 = copy.deepcopy(runs)
    idx = [i for i, e in enumerate(bad2[0]) if e["e"] == "Sys" and e["c"] == "unlink"]
    cl = [i for i, e in enumerate(bad2[0]) if e["e"] == "Sys" and e["c"] == "close" and e["f"][0] == 1 and e["f"][3] == 1]
    if idx and cl:
        i, j = cl[0], [k for k in idx if k > cl[0]][0]
        bad2[0][i], bad2[0][j] = bad2[0][j], bad2[0][i]      # original deleted before the compressed file is closed
    a1, f1 = C.validate_runs("Trace_Rotation", "Trace_Rotation.cfg", bad1, work, "st_bad1")
    a2, f2 = C.validate_runs("Trace_Rotation", "Trace_Rotation.cfg", bad2, work, "st_bad2")
    return _verdict("QtlRotation", not fails, [("one record missing from one directory listing", bool(f1)),
                                               ("unlink(original) moved before close(compressed)", bool(f2))])


def st_threads(work):
    from . import p02_threads as T
    bdir = C.ensure_harness("asan", ["drv_threads"])
    s = {"id": 1, "mode": "logger", "producers": 3, "msgs": 3, "jitter": 20, "seed": 5, "sinkDelayUs": 100, "pre": ["move"],
         "script": [], "script2": [], "heapctx": True, "kind": "life"}
    ex = T.execute(bdir, [s], work, "st")
    acc, fails, _ = _quiet(lambda: T.validate("SELFTEST", ex, work, "st_ok", 0))
    bad1 = copy.deepcopy(ex)
    for e in bad1[0][1]:
        if e["e"] == "Deliver":
            e["n"] += 1
            break
    bad2 = copy.deepcopy(ex)
    evs = bad2[0][1]
    for i, e in enumerate(evs):
        if e["e"] == "Pt" and e["p"] == "oth.posting":
            del evs[i]
            break
    a1, f1, _ = _quiet(lambda: T.validate("SELFTEST", bad1, work, "st_bad1", 0))
    a2, f2, _ = _quiet(lambda: T.validate("SELFTEST", bad2, work, "st_bad2", 0))
    return _verdict("QtlThreads", not fails, [("one delivered sequence number changed", bool(f1)),
                                              ("one hand-off point (oth.posting) removed", bool(f2))])


def _quiet(fn):
    import io
    import contextlib
    buf = io.StringIO()
    with contextlib.redirect_stdout(buf):
        return fn()


def st_pattern(work):
    from . import p12_pattern as P
    bdir = C.ensure_harness("asan", ["drv_pattern"])
    rnd = random.Random(6)
    cases = [P.Case(i + 1, rnd) for i in range(50)]
    outs, _ = P.run_driver(bdir, cases, work, "st")
    evs = [c.resolve(outs[c.id]) for c in cases]
    acc, rej = P.validate_cases(evs, work, "st_ok")
    bad = copy.deepcopy(evs)
    for e in bad:
        if e["out"]:
            e["out"] = e["out"][:-1]
            break
    a2, r2 = P.validate_cases(bad, work, "st_bad")
    return _verdict("QtlPattern", not rej, [("last code unit of one output dropped", bool(r2))])


def st_json(work):
    from . import p13_json as P
    bdir = C.ensure_harness("asan", ["drv_json"])
    rnd = random.Random(7)
    cases = [P.Case(i + 1, rnd, "sentry" if i % 2 else "compact") for i in range(40)]
    outs, _ = P.run_driver(bdir, cases, work, "st", "UTC")
    evs = [c.event(outs[c.id]) for c in cases]
    acc, rej = P.validate(evs, work, "st_ok")
    bad = copy.deepcopy(evs)
    ids = [e for e in bad if e["e"] == "Sentry"]
    ids[1]["out"]["id"] = ids[0]["out"]["id"]                 # a repeated event id
    a2, r2 = P.validate(bad, work, "st_bad")
    return _verdict("QtlJson", not rej, [("one Sentry event id repeated", bool(r2))])


def st_config(work):
    from . import p19_config as P
    bdir = C.ensure_harness("asan", ["drv_config"])
    rnd = random.Random(8)
    hists = [P.gen_history(rnd, i + 1) for i in range(20)]
    evs = P.run_histories(bdir, hists, work)
    acc, rej = P.validate(evs, [None] * len(evs), work, "st_ok")
    bad = copy.deepcopy(evs)
    for e in bad:
        if e["e"] == "Op" and e["op"] == "install":
            e["cur"] = "default"
            break
    a2, r2 = P.validate(bad, [None] * len(bad), work, "st_bad")
    bad2 = copy.deepcopy(evs)
    for e in bad2:
        if e["e"] == "Op" and e["op"] == "log" and e.get("rcv") in ("a", "b"):
            e["rcv"] = "b" if e["rcv"] == "a" else "a"          # the other logger object got the message
            break
    a3, r3 = P.validate(bad2, [None] * len(bad2), work, "st_bad2")
    return _verdict("QtlConfig", not rej, [("handler reported after one install changed", bool(r2)),
                                           ("a message received by the other logger object", bool(r3))])


def st_signal(work):
    from . import signal_spec as S
    bdir = C.ensure_harness("asan", ["drv_signal"])

    class Keep:
        runs = None
    orig = C.validate_runs

    def spy(spec, cfg, runs, w, tag, **kw):
        Keep.runs = runs
        return orig(spec, cfg, runs, w, tag, **kw)
    C.validate_runs = spy
    try:
        acc, rej, info = S.campaign(bdir, random.Random(9), 12, work / "sig")
    finally:
        C.validate_runs = orig
    runs = Keep.runs
    bad = copy.deepcopy(runs)
    done = False
    for r in bad:
        for e in r:
            if e["e"] == "Slot" and e["m"]["file"]:
                e["m"]["file"] = e["m"]["file"][:-1] + [35]            # the copy's file name ends in '#'
                done = True
                break
        if done:
            break
    _, r2 = orig("Trace_Signal", "Trace_Signal.cfg", bad, work / "sig", "st_bad", chunk=60, timeout=600)
    bad2 = copy.deepcopy(runs)
    done = False
    for r in bad2:
        for e in r:
            if e["e"] == "Slot" and e["m"]["src"] != "M":
                e["t"] = e["m"]["src"]                                   # the slot ran on the emitting thread
                done = True
                break
        if done:
            break
    _, r3 = orig("Trace_Signal", "Trace_Signal.cfg", bad2, work / "sig", "st_bad2", chunk=60, timeout=600)
    return _verdict("QtlSignal", not rej, [("one field of a slot's copy changed", bool(r2)),
                                           ("a slot invoked on the emitting thread", bool(r3))])


def st_http(work):
    from . import http_spec as H

    class Keep:
        runs = None
    orig = C.validate_runs

    def spy(spec, cfg, runs, w, tag, **kw):
        Keep.runs = runs
        return orig(spec, cfg, runs, w, tag, **kw)
    C.validate_runs = spy
    try:
        acc, rej, info = H.campaign(random.Random(10), 6, work / "http")
    finally:
        C.validate_runs = orig
    bad = copy.deepcopy(Keep.runs)
    done = False
    for r in bad:
        for e in r:
            if e["e"] == "Req" and e["body"]:
                e["body"] = e["body"][:-1]                       # the collector got one byte less
                done = True
                break
        if done:
            break
    _, r2 = orig("Trace_Http", "Trace_Http.cfg", bad, work / "http", "st_bad", chunk=40, timeout=600)
    bad2 = copy.deepcopy(Keep.runs)
    for r in bad2:
        reqs = [i for i, e in enumerate(r) if e["e"] == "Req"]
        if reqs:
            r.insert(reqs[0], copy.deepcopy(r[reqs[0]]))          # one message posted twice
            break
    _, r3 = orig("Trace_Http", "Trace_Http.cfg", bad2, work / "http", "st_bad2", chunk=40, timeout=600)
    return _verdict("QtlHttp", not rej, [("a request body one byte short", bool(r2)), ("one message posted twice", bool(r3))])


def _spy_campaign(fn):
    class Keep:
        runs = None
    orig = C.validate_runs

    def spy(spec, cfg, runs, w, tag, **kw):
        Keep.runs = runs
        return orig(spec, cfg, runs, w, tag, **kw)
    C.validate_runs = spy
    try:
        res = fn()
    finally:
        C.validate_runs = orig
    return res, Keep.runs, orig


def st_env(work):
    from . import env_spec as E
    bdir = C.ensure_harness("asan", ["drv_env"])
    (acc, rej, info), runs, orig = _spy_campaign(lambda: E.attrs_campaign(bdir, random.Random(11), 25, work / "env"))
    # 1. a handler built after a restart shows a UUID never seen before although the settings still hold the old one
    bad = copy.deepcopy(runs)
    done = False
    for r in bad:
        seen = 0
        for e in r:
            if e.get("op") == "uuid":
                if e["u"] <= seen and not done:
                    e["u"] = seen + 1
                    done = True
                    break
                seen = max(seen, e["u"])
        if done:
            break
    _, r1 = orig("Trace_Env", "Trace_Env.cfg", bad, work / "env", "st_bad1", chunk=60)
    # 2. an AppInfoAttrs handler follows a later rename of the application
    bad2 = copy.deepcopy(runs)
    done = False
    for r in bad2:
        for e in r:
            if e.get("op") == "msg" and len(e.get("attrs", [])) == 5:
                e["attrs"][1][1] = e["attrs"][1][1] + "x"
                done = True
                break
        if done:
            break
    _, r2 = orig("Trace_Env", "Trace_Env.cfg", bad2, work / "env", "st_bad2", chunk=60)
    ok1 = _verdict("QtlEnv", not rej, [("a stored UUID replaced by a new one", bool(r1)) if any(
        e.get("op") == "uuid" for r in bad for e in r) else ("(no repeated UUID in the sample)", True),
        ("an application name that is not the snapshot", bool(r2))])
    (acc, rej, info), runs, orig = _spy_campaign(lambda: E.sinks_campaign(bdir, random.Random(12), 40, work / "env"))
    cfg = "Trace_LineSinks_keeps.cfg" if info["ident_pointer"] == "kept" else "Trace_LineSinks.cfg"
    bad = copy.deepcopy(runs)
    done = False
    for r in bad:
        for e in r:
            if e.get("op") == "sendio" and e["devs"] and any(d[1] for d in e["devs"]):
                d = next(d for d in e["devs"] if d[1])
                d[1] = d[1][:-1]                                  # the device lacks the final newline
                done = True
                break
        if done:
            break
    _, r3 = orig("Trace_LineSinks", cfg, bad, work / "env", "st_bad3", chunk=60)
    bad2 = copy.deepcopy(runs)
    done = False
    for r in bad2:
        for e in r:
            if e.get("op") == "sendsys" and e["calls"] and e["m"]["type"] == 1:
                e["calls"][0]["prio"] = 3                          # a warning handed over as LOG_ERR
                done = True
                break
        if done:
            break
    _, r4 = orig("Trace_LineSinks", cfg, bad2, work / "env", "st_bad4", chunk=60)
    ok2 = _verdict("QtlLineSinks", not rej, [("a device one newline short", bool(r3)),
                                             ("a warning with the priority of an error", bool(r4) or not done)])
    return ok1 and ok2


def run(argv):
    work = C.BUILD / "work" / "selftest"
    work.mkdir(parents=True, exist_ok=True)
    ok = True
    try:
        for fn in (st_sorted, st_pipeline, st_rotation, st_threads, st_pattern, st_json, st_config, st_signal, st_http, st_env):
            ok = fn(work) and ok
    except C.ToolFailure as e:
        print("SELFTEST TOOL FAILURE:", e, file=sys.stderr)
        return 2
    print("selftest:", "all binding demonstrations behaved as expected" if ok else "SOME DEMONSTRATION FAILED")
    return 0 if ok else 1
