"""C01 (pipeline evaluation) and C16 (built-in filters/counters): spec/QtlPipeline.tla.

Scenario generator -> harness/drv_pipeline (real classes) -> ndjson -> TLC trace validation."""
import json
import random
import subprocess
import time

from . import catrules
from . import common as C

KEYS = ["k1", "k2", "k3", "n", "seq_number"]
VALS = [[97], [98, 99], [], [0x200B], [0xD83D, 0xDE42], [37, 123, 125], [65]]
TYPES = ["debug", "info", "warning", "critical", "fatal"]
CATS = ["default", "app", "app.net", "net.x", ""]

# texts that differ only in case / whitespace / normalisation / emptiness
TEXTS = [[], None, [97], [65], [97, 32], [32, 97], [97, 98], [98, 97], [0xE9], [0x65, 0x301], [97, 10], [10],
         [97, 98, 97], [0x200B], [0xD83D, 0xDE42, 97], [97, 97], [120, 98, 98, 121], [97, 98, 97, 98],
         # different texts with the same 31-polynomial hash (qHash of a QString, seed 0), and one that hashes like ""
         [65, 97], [66, 66], [0]]
COLLIDING = [[65, 97], [66, 66], [0], [], [65, 97, 65, 97], [66, 66, 66, 66], [65, 97, 66, 66]]


def u(s):
    return [ord(c) for c in s]


class Gen:
    def __init__(self, rnd):
        self.rnd = rnd
        self.ops = []
        self.next = 1
        self.pipes = {}      # id -> dict(cls, scoped)
        self.leaves = []     # ids of shareable leaves
        self.kinds = {}      # id -> kind
        self.root = None

    def nid(self):
        i = self.next
        self.next += 1
        return i

    def leaf_desc(self, focus):
        r = self.rnd
        builtin = ["seq", "level", "dup", "regex", "cat"]
        custom = ["attr", "filter", "fmt", "gen", "sink", "probe"]
        if focus == "C16":
            kind = r.choice(builtin * 3 + ["probe", "probe", "sink", "attr", "filter", "gen", "fmt"])
        else:
            kind = r.choice(custom * 3 + builtin)
        if kind == "attr":
            n = r.randint(1, 2)
            return {"kind": "attr", "sets": [{"k": r.choice(KEYS), "t": "s", "v": r.choice(VALS)} for _ in range(n)]}
        if kind == "seq":
            return {"kind": "seq", "name": r.choice(["n", "seq_number", "k1"])}
        if kind == "filter":
            mode = r.choice(["const", "const", "hasattr", "isfmt", "type"])
            arg = {"const": r.random() < 0.5, "hasattr": r.choice(KEYS), "isfmt": "", "type": r.choice(TYPES)}[mode]
            return {"kind": "filter", "mode": mode, "arg": arg}
        if kind == "level":
            return {"kind": "level", "min": r.choice(TYPES)}
        if kind == "dup":
            return {"kind": "dup"}
        if kind == "regex":
            rx = r.choice(["contains", "prefix", "suffix", "emptyonly", "any", "alt", "icontains", "backref", "backref", "backref",
                           "group", "xcontains"])
            lits = [[97], [97, 98], [65], [32], [46], [40], [0xE9], [98]]
            lit = r.choice(lits)
            if rx == "icontains":
                lit = r.choice([[97], [65, 66], [98, 97]])       # ASCII letters without k/s (Unicode folding)
            if rx == "xcontains":
                lit = r.choice([[97, 98], [98, 97], [97], [65, 66]])   # letters: in extended syntax blanks and '#' would not be literal
            return {"kind": "regex", "rx": rx, "lit": lit, "lit2": r.choice(lits), "ctor": r.choice(["str", "qre"])}
        if kind == "cat":
            rules, text = catrules.gen_rules(r, CATS, 3)
            return {"kind": "cat", "rules": rules, "rtext": text}
        if kind == "fmt":
            mode = r.choice(["const", "wrap", "wrap", "attr", "raw"])
            return {"kind": "fmt", "mode": mode, "tag": r.choice([[70], [91], [], [0x200B, 102]]), "key": r.choice(KEYS)}
        if kind == "gen":
            effs = []
            for _ in range(r.randint(0, 2)):
                op = r.choice(["set", "set", "remove", "setfmt", "clearfmt"])
                effs.append({"op": op, "k": r.choice(KEYS), "t": "s", "v": r.choice(VALS)})
            return {"kind": "gen", "ret": r.random() < 0.6, "effects": effs}
        if kind == "sink":
            return {"kind": "sink"}
        return {"kind": "probe"}

    def new_pipe(self, cls=None, scoped=None):
        r = self.rnd
        i = self.nid()
        d = {"kind": "pipe", "cls": cls or r.choice(["simple", "pipeline"]),
             "scoped": (r.random() < 0.5) if scoped is None else scoped}
        self.ops.append({"op": "new", "id": i, "d": d})
        self.pipes[i] = d
        self.kinds[i] = "pipe"
        return i

    def new_leaf(self, focus):
        i = self.nid()
        d = self.leaf_desc(focus)
        self.ops.append({"op": "new", "id": i, "d": d})
        self.leaves.append(i)
        self.kinds[i] = d["kind"]
        return i

    def build_step(self, focus):
        r = self.rnd
        p = r.choice(list(self.pipes))
        x = r.random()
        if x < 0.30:
            h = self.new_leaf(focus)
            self.ops.append({"op": "append", "p": p, "h": h, "via": r.choice(["append", "shl"])})
        elif x < 0.45 and self.pipes[p]["cls"] == "simple":
            d = self.leaf_desc(focus)
            while d["kind"] == "sink":
                d = self.leaf_desc(focus)
            i = self.nid()
            self.kinds[i] = d["kind"]
            self.ops.append({"op": "fluent", "p": p, "id": i, "d": d})
        elif x < 0.55 and self.leaves:
            # share an existing leaf
            self.ops.append({"op": "append", "p": p, "h": r.choice(self.leaves), "via": "append"})
        elif x < 0.67:
            q = self.new_pipe()
            self.ops.append({"op": "append", "p": p, "h": q, "via": r.choice(["append", "shl"])})
        elif x < 0.77 and self.pipes[p]["cls"] == "simple":
            i = self.nid()
            self.ops.append({"op": "child", "p": p, "id": i})
            self.pipes[i] = {"kind": "pipe", "cls": "simple", "scoped": True}
            self.kinds[i] = "pipe"
            if r.random() < 0.5:
                self.ops.append({"op": "end", "p": i})
        elif x < 0.82:
            later = [q for q in self.pipes if q > p]
            if later:
                self.ops.append({"op": "append", "p": p, "h": r.choice(later), "via": "append"})   # shared pipeline
        elif x < 0.88:
            hs = []
            for _ in range(r.randint(1, 3)):
                if r.random() < 0.5 or not self.leaves:
                    hs.append(0)
                else:
                    hs.append(r.choice(self.leaves))
            self.ops.append({"op": "appendList", "p": p, "hs": hs})
        elif x < 0.91:
            self.ops.append({"op": "append", "p": p, "h": 0, "via": r.choice(["append", "shl"])})
        elif x < 0.94 and self.leaves:
            self.ops.append({"op": "remove", "p": p, "h": r.choice(self.leaves + [0])})
        elif x < 0.95:
            self.ops.append({"op": "clear", "p": p})
        elif self.pipes[p]["cls"] == "simple":
            self.ops.append({"op": r.choice(["end", "flush", "flush"]), "p": p})

    def msg(self, texts=TEXTS):
        r = self.rnd
        self.ops.append({"op": "msg", "type": r.choice(TYPES), "text": r.choice(texts), "cat": u(r.choice(CATS))})


def gen_tree_scenario(rnd, sid, focus):
    g = Gen(rnd)
    root = g.new_pipe()
    g.ops.append({"op": "root", "p": root})
    for _ in range(rnd.randint(3, 16)):
        g.build_step(focus)
    def flushes():
        # SimplePipeline::flush() walks every sink below it (QtlPipeline!FlushWalk)
        for q, d in list(g.pipes.items()):
            if d["cls"] == "simple" and rnd.random() < 0.5:
                g.ops.append({"op": "flush", "p": q})
    flushes()
    nm = rnd.randint(1, 8)
    for k in range(nm):
        g.msg()
        if rnd.random() < 0.15:
            g.build_step(focus)      # pipelines may be changed between messages
            flushes()
    return {"id": sid, "ops": g.ops}


def gen_builtin_scenario(rnd, sid):
    """C16: long message sequences through the built-ins, handlers shared between two pipelines,
    later handlers rejecting; texts differing only in case / whitespace / normalisation form."""
    g = Gen(rnd)
    root = g.new_pipe(cls="pipeline", scoped=False)
    g.ops.append({"op": "root", "p": root})
    a = g.new_pipe(scoped=rnd.random() < 0.5)
    b = g.new_pipe(scoped=rnd.random() < 0.5)
    shared = []
    for kind in rnd.sample(["seq", "dup", "level", "regex", "seq"], 3):
        i = g.nid()
        d = None
        while d is None or d["kind"] != kind:
            d = g.leaf_desc("C16")
        g.ops.append({"op": "new", "id": i, "d": d})
        g.kinds[i] = kind
        shared.append(i)
    for p in (a, b):
        if rnd.random() < 0.4:
            # a formatter upstream of the built-ins: they decide on the message, not on the line made of it
            f = g.nid()
            g.ops.append({"op": "new", "id": f, "d": {"kind": "fmt", "mode": rnd.choice(["const", "const", "wrap", "attr"]),
                                                      "tag": rnd.choice([[70], [91], []]), "key": rnd.choice(KEYS)}})
            g.ops.append({"op": "append", "p": p, "h": f, "via": "append"})
        for h in shared:
            if rnd.random() < 0.8:
                g.ops.append({"op": "append", "p": p, "h": h, "via": "append"})
                pr = g.nid()
                g.ops.append({"op": "new", "id": pr, "d": {"kind": "probe"}})
                g.ops.append({"op": "append", "p": p, "h": pr, "via": "append"})
        if rnd.random() < 0.5:
            f = g.nid()
            g.ops.append({"op": "new", "id": f, "d": {"kind": "filter", "mode": "const", "arg": False}})
            g.ops.append({"op": "append", "p": p, "h": f, "via": "append"})
        s = g.nid()
        g.ops.append({"op": "new", "id": s, "d": {"kind": "sink"}})
        g.ops.append({"op": "append", "p": p, "h": s, "via": "append"})
    g.ops.append({"op": "append", "p": root, "h": a, "via": "append"})
    g.ops.append({"op": "append", "p": root, "h": b, "via": "append"})
    pool = rnd.sample(TEXTS, 4)
    if rnd.random() < 0.35:
        pool = rnd.sample(COLLIDING, 3) + rnd.sample(TEXTS, 2)    # "equal" must mean equal text, not equal digest
    if any(o.get("op") == "new" and o["d"].get("rx") == "backref" for o in g.ops):
        pool += [[97, 97], [120, 98, 98, 121]]      # texts the back-reference is about
    n = rnd.randint(20, 200)
    for _ in range(n):
        # runs and alternations
        if rnd.random() < 0.5 and g.ops[-1]["op"] == "msg":
            g.ops.append(dict(g.ops[-1], type=rnd.choice(TYPES)))
        else:
            g.msg(pool)
    return {"id": sid, "ops": g.ops}


def gen_builtin_tables(first_id):
    """C16, deterministic part: every built-in filter in a one-filter pipeline against every text of the pool and every
    message type - every regular-expression kind with both constructors, every level threshold, the duplicate filter
    on a fixed run pattern.  (The random scenarios find interactions; these make sure no single decision rule goes
    unexercised, whatever the seed.)"""
    out = []
    sid = first_id

    def scenario(desc, msgs):
        nonlocal sid
        ops = [{"op": "new", "id": 1, "d": {"kind": "pipe", "cls": "pipeline", "scoped": False}}, {"op": "root", "p": 1},
               {"op": "new", "id": 2, "d": desc}, {"op": "append", "p": 1, "h": 2, "via": "append"},
               {"op": "new", "id": 3, "d": {"kind": "probe"}}, {"op": "append", "p": 1, "h": 3, "via": "append"}]
        ops += msgs
        out.append({"id": sid, "ops": ops})
        sid += 1

    def msg(t, text, cat="default"):
        return {"op": "msg", "type": t, "text": text, "cat": u(cat)}
    all_texts = [msg("info", t) for t in TEXTS]
    for rx in ["contains", "prefix", "suffix", "emptyonly", "any", "alt", "icontains", "backref", "group", "xcontains"]:
        for ctor in ("str", "qre"):
            for lit, lit2 in (([97], [98]), ([97, 98], [65]), ([98], [97, 98])):
                scenario({"kind": "regex", "rx": rx, "lit": lit, "lit2": lit2, "ctor": ctor}, all_texts)
    for mn in TYPES:
        scenario({"kind": "level", "min": mn}, [msg(t, [97]) for t in TYPES])
    run = [[0], [97], [97], [98], [98], [98], [97], [], [], None, None, [97, 32], [97], [65], [97],
           [65, 97], [66, 66], [66, 66], [65, 97], [65, 97, 66, 66], [66, 66, 65, 97], [66, 66, 66, 66], [0], []]
    scenario({"kind": "dup"}, [msg(TYPES[i % len(TYPES)], t) for i, t in enumerate(run)])
    scenario({"kind": "seq", "name": "seq_number"}, [msg("debug", [97]) for _ in range(12)])
    return out


def classify(scn):
    """features used for the evidence counters"""
    kinds = set()
    nested = scoped = reject = shared = nulls = 0
    seen = {}
    for op in scn["ops"]:
        d = op.get("d")
        if d:
            kinds.add(d["kind"])
            if d["kind"] == "pipe" and op["op"] == "new":
                nested += 1
                scoped += 1 if d.get("scoped") else 0
            if d["kind"] in ("filter", "gen", "level", "dup", "regex", "cat"):
                reject += 1
        if op["op"] == "child":
            nested += 1
            scoped += 1
        if op["op"] == "append" and op["h"]:
            seen[op["h"]] = seen.get(op["h"], 0) + 1
        if op["op"] == "appendList":
            nulls += sum(1 for x in op["hs"] if x == 0)
    shared = sum(1 for v in seen.values() if v > 1)
    return {"kinds": kinds, "nested": nested, "scoped": scoped, "reject": reject, "shared": shared, "nulls": nulls}


def run_driver(bdir, scenarios, work, tag):
    work.mkdir(parents=True, exist_ok=True)
    inp = work / f"{tag}.scn"
    with open(inp, "w") as f:
        for s in scenarios:
            f.write(json.dumps(s, separators=(",", ":")) + "\n")
    p = subprocess.run([str(bdir / "drv_pipeline"), str(inp)], capture_output=True, text=True, timeout=900)
    if p.returncode != 0:
        return None, p.stderr[-3000:], inp
    inp.unlink()
    events = [json.loads(l) for l in p.stdout.splitlines() if l.strip()]
    return C.split_runs(events), None, None


def mc_part(tier):
    cfg = "MC_Pipeline.cfg" if tier == "quick" else "MC_Pipeline_thorough.cfg"
    mc = C.tlc_must_pass(C.run_tlc("MC_Pipeline", cfg, coverage=(tier == "quick"), timeout=3000, xmx="24g"), cfg)
    if mc.violation:
        raise C.ToolFailure(f"the pipeline model itself violates {mc.violation}:\n{mc.out[-3000:]}")
    if tier == "quick":
        C.check_coverage(mc, ["MCBuild", "MCStart", "MCNull", "MCEnter", "MCLeaf", "MCLeave", "MCFinish"], cfg)
    # random deep behaviours of the big configuration (full handler menu, 3 messages)
    sim = C.run_tlc("MC_Pipeline", "Sim_Pipeline.cfg", simulate=2000 if tier == "quick" else 40000, depth=120,
                    workers=8, timeout=1500)
    C.tlc_must_pass(sim, "Sim_Pipeline")
    if sim.violation:
        raise C.ToolFailure(f"the pipeline model (simulation) violates {sim.violation}:\n{sim.out[-3000:]}")
    return mc, sim, cfg


def run(pid, tier, seed):
    t0 = time.time()
    mc, sim, cfg = mc_part(tier)
    bdir = C.ensure_harness("asan", ["drv_pipeline"])
    rnd = random.Random(seed * 7919 + (1 if pid == "C01" else 16))
    scenarios = []
    if pid == "C01":
        n = 300 if tier == "quick" else 6000
        for i in range(n):
            scenarios.append(gen_tree_scenario(rnd, i + 1, "C01"))
    else:
        n_tree, n_seq = (120, 40) if tier == "quick" else (2500, 600)
        for i in range(n_tree):
            scenarios.append(gen_tree_scenario(rnd, i + 1, "C16"))
        for i in range(n_seq):
            scenarios.append(gen_builtin_scenario(rnd, n_tree + i + 1))
        scenarios += gen_builtin_tables(n_tree + n_seq + 1)
    work = C.BUILD / "work" / pid
    runs, crash, inp = run_driver(bdir, scenarios, work, f"s{seed}")
    violations = 0
    accepted = 0
    failures = []
    if runs is None:
        rp = C.save_replay(pid, f"crash_{seed}.json", {"kind": "driver-crash", "stderr": crash, "input": str(inp)})
        C.report_violation(pid, rp)
        violations = 1
    else:
        by_id = {s["id"]: s for s in scenarios}
        accepted, failures = C.validate_runs("Trace_Pipeline", "Trace_Pipeline.cfg", runs, work, f"v{seed}", chunk=150)
        for f in failures:
            sid = f["run"][0].get("scn")
            rp = C.save_replay(pid, f"scn_{seed}_{sid}.json",
                               {"kind": "trace-rejected", "scenario": by_id.get(sid), "matched_in_run": f["matched_in_run"],
                                "rejected_event": f["event"], "run": f["run"], "tlc": f["tlc_tail"]})
            C.report_violation(pid, rp)
            violations += 1

    # evidence counters
    nontriv = 0
    feats = {"nested": 0, "scoped": 0, "shared": 0, "nulls": 0}
    kind_hist = {}
    for s in scenarios:
        c = classify(s)
        if pid == "C01":
            ok = c["nested"] >= 2 and c["reject"] >= 1     # a nested pipeline and something that can reject
        else:
            ok = len(c["kinds"] & {"seq", "level", "dup", "regex", "cat"}) >= 1
        nontriv += 1 if ok else 0
        for k in feats:
            feats[k] += 1 if c[k] else 0
        for k in c["kinds"]:
            kind_hist[k] = kind_hist.get(k, 0) + 1
    n_events = sum(len(r) for r in runs) if runs else 0
    n_h = sum(1 for r in (runs or []) for e in r if e["e"] == "H")
    n_msgs = sum(1 for r in (runs or []) for e in r if e["e"] == "Start")
    samples = []
    if runs:
        for r in runs[:2]:
            samples.append({"scenario": r[0].get("scn"), "events": r[:14]})
    beyond = {}
    if pid == "C01":
        beyond = beyond_the_property(tier, rnd, work)
    C.write_evidence(pid, tier, seed, "model_checking", {
        "states": mc.distinct, "transitions": mc.generated,
        "traces_validated_against_impl": accepted,
        "beyond_the_property": beyond,
        "samples": samples,
        "evaluations": len(scenarios), "distinct_nontrivial": nontriv,
        "rule": ("seeded random handler trees (<= 17 builder calls: Pipeline/SimplePipeline, fluent calls, pipeline()/end(), shared "
                 "handlers and pipelines, null entries, remove/clear) and <= 8 messages each" if pid == "C01" else
                 "trees biased to the built-in handlers plus long-sequence scenarios (20-200 messages, shared SeqNumberAttr/"
                 "DuplicateFilter/LevelFilter/RegExpFilter objects in two pipelines, confusable texts)")
                + "; non-trivial = " + ("at least two pipeline objects and one handler that can reject" if pid == "C01"
                                        else "contains at least one built-in stateful/deciding handler"),
        "exhaustive": False,
        "tlc_exhaustive_config": cfg, "tlc_depth": mc.depth, "tlc_action_coverage": C.cov_table(mc),
        "tlc_simulation": {"config": "Sim_Pipeline.cfg", "states_generated": sim.generated},
        "trace_events": n_events, "handler_invocations_checked": n_h, "messages": n_msgs,
        "scenarios_with": feats, "handler_kind_histogram": kind_hist, "rejected_runs": len(failures),
    }, time.time() - t0, violations, [
        "TLC and the Json/IOUtils community modules are trusted",
        "observable handlers are harness-supplied Function* bodies and a recording Sink; the built-in classes run unobserved and "
        "their effect is inferred by the spec and checked at the next observation",
        "formatters returning a null QString are not generated (DESIGN 3.1f)",
    ])
    return 1 if violations else 0


def beyond_the_property(tier, rnd, work):
    """Specification growth beyond the listed properties, reported as NOTE lines of C01 (never as violations of it):
    the line sinks at the end of a pipeline (QtlLineSinks: IODeviceSink, SyslogSink) and the environment attribute
    handlers at its start (QtlEnv: AppInfoAttrs, AppUuidAttr, SysInfoAttrs)."""
    from . import env_spec
    out = {}
    try:
        bd = C.ensure_harness("asan", ["drv_env"])
        mce = C.run_tlc("MC_Env", "MC_Env.cfg", workers=4, deadlock=False)
        wit = C.run_tlc("MC_Env", "MC_Env_W_OneUuid.cfg", workers=2, deadlock=False)
        witr = C.run_tlc("MC_Env", "MC_Env_W_Race.cfg", workers=2, deadlock=False)
        if not witr.violation:
            print("NOTE property=C01 MC_Env_W_Race: two interleaved constructions no longer violate UuidPersistent in the model", flush=True)
        if mce.violation:
            print("NOTE property=C01 MC_Env: " + str(mce.violation)[:200], flush=True)
        if not wit.violation:
            print("NOTE property=C01 MC_Env_W_OneUuid: the witness configuration no longer violates - the exhaustive run may be vacuous", flush=True)
        apa = {"base: EInit => IndInv": C.run_apalache("ApaEnv", "EInit", "IndInv", 0, 300, cinit="CInit", next_="ENext"),
               "step: IndInv /\\ ENext => IndInv'": C.run_apalache("ApaEnv", "IndInit", "IndInv", 1, 600, cinit="CInit", next_="ENext"),
               "witness: the step starts from rich states (must be Error)":
                   C.run_apalache("ApaEnv", "IndInit", "NotRich", 0, 300, cinit="CInit", next_="ENext")}
        if list(apa.values()) != ["NoError", "NoError", "Error"]:
            print(f"NOTE property=C01 ApaEnv: the inductive invariant of QtlEnv was not discharged as expected: {apa}", flush=True)
        a_acc, a_fail, a_info = env_spec.attrs_campaign(bd, rnd, 40 if tier == "quick" else 1200, work)
        if a_fail:
            print(f"NOTE property=C01 the environment attribute handlers (spec/QtlEnv.tla: snapshot at construction, persistent "
                  f"application UUID) rejected {len(a_fail)} of {a_info['histories']} histories; first: "
                  f"{json.dumps(a_fail[0]['event'])[:300]}", flush=True)
        r_acc, r_fail, r_info = env_spec.attrs_campaign(bd, rnd, 30 if tier == "quick" else 600, work, races=True)
        if r_fail:
            print(f"NOTE property=C01 simultaneous constructions of AppUuidAttr by two instances of the application: {len(r_fail)} of "
                  f"{r_info['histories']} histories are not explained by QtlEnv's read / write steps; first: "
                  f"{json.dumps(r_fail[0]['event'])[:300]}", flush=True)
        if r_info["simultaneous_constructions_that_showed_two_uuids"]:
            print(f"NOTE property=C01 observation beyond the list: {r_info['simultaneous_constructions_that_showed_two_uuids']} of "
                  f"{r_info['simultaneous_constructions']} simultaneous first constructions of AppUuidAttr by two instances of one application "
                  "showed two different UUIDs (read-then-write on the settings without a lock; MC_Env_W_Race violates UuidPersistent)", flush=True)
        a_info["simultaneous"] = dict(r_info, accepted_histories=r_acc, rejected_histories=len(r_fail))
        out["environment_attribute_handlers"] = dict(a_info, accepted_histories=a_acc, rejected_histories=len(a_fail),
                                                     model_states=mce.distinct, witness_violates=bool(wit.violation),
                                                     apalache_inductive_invariant=apa)
        mcl = C.run_tlc("MC_LineSinks", "MC_LineSinks.cfg" if tier == "quick" else "MC_LineSinks_thorough.cfg", workers=8,
                        deadlock=False, timeout=1500)
        w1 = C.run_tlc("MC_LineSinks", "MC_LineSinks_W_Tag.cfg", workers=2, deadlock=False)
        w2 = C.run_tlc("MC_LineSinks", "MC_LineSinks_W_OwnIdent.cfg", workers=2, deadlock=False)
        if mcl.violation:
            print("NOTE property=C01 MC_LineSinks: " + str(mcl.violation)[:200], flush=True)
        if not (w1.violation and w2.violation):
            print("NOTE property=C01 MC_LineSinks: a witness configuration no longer violates", flush=True)
        s_acc, s_fail, s_info = env_spec.sinks_campaign(bd, rnd, 80 if tier == "quick" else 3000, work)
        if s_fail:
            print(f"NOTE property=C01 the line sinks (spec/QtlLineSinks.tla: IODeviceSink writes the shown text and one newline, "
                  f"SyslogSink's priority table and text) rejected {len(s_fail)} of {s_info['histories']} histories; first: "
                  f"{json.dumps(s_fail[0]['event'])[:300]}", flush=True)
        elif s_info["ident_pointer"] == "dangling":
            print("NOTE property=C01 observation beyond the list: SyslogSink gives openlog() a pointer into a temporary "
                  "(qPrintable(ident)); the C library keeps the pointer, the memory is gone at every later syslog() call "
                  "(MC_LineSinks_W_Tag violates IdentMemoryAlive; the recorded executions match conf.keepsIdent = FALSE)", flush=True)
        out["line_sinks"] = dict(s_info, accepted_histories=s_acc, rejected_histories=len(s_fail), model_states=mcl.distinct,
                                 witnesses_violate=bool(w1.violation and w2.violation))
    except C.ToolFailure as e:
        print("NOTE property=C01 the beyond-the-list campaigns (QtlEnv, QtlLineSinks) could not run: " + str(e)[:300], flush=True)
        out["error"] = str(e)[:300]
    return out


def replay(pid, path):
    payload = json.loads(open(path).read())
    scn = payload.get("scenario")
    if not scn:
        print("replay file has no scenario")
        return 2
    bdir = C.ensure_harness("asan", ["drv_pipeline"])
    work = C.BUILD / "work" / pid
    runs, crash, _ = run_driver(bdir, [scn], work, "replay")
    if runs is None:
        print(crash)
        C.report_violation(pid, path)
        return 1
    acc, failures = C.validate_runs("Trace_Pipeline", "Trace_Pipeline.cfg", runs, work, "replay")
    for ev in runs[0]:
        print(json.dumps(ev))
    if failures:
        print("rejected at event", failures[0]["matched_in_run"], json.dumps(failures[0]["event"]))
        C.report_violation(pid, path)
        return 1
    print("accepted")
    return 0
