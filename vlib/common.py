"""Shared machinery for the qtlogger TLA+ verification checks.

Everything here is plumbing: building the harness from /repo's working tree, running TLC
(exhaustive / simulation / trace validation), writing evidence files, reporting violations and
known findings.  The deciding logic lives in spec/*.tla; the per-property glue in vlib/pNN_*.py.
"""
import fcntl
import json
import os
import re
import shutil
import subprocess
import sys
import time
from pathlib import Path

VERIF = Path(__file__).resolve().parents[1]
REPO = Path(os.environ.get("VERIF_REPO", "/repo"))
BUILD = VERIF / ".build"
SPEC = VERIF / "spec"
EVID = VERIF / "evidence"
REPLAYS = VERIF / "replays"
TLA_CP = "/opt/veriftools/tla/tla2tools.jar:/opt/veriftools/tla/CommunityModules-deps.jar"
NCPU = os.cpu_count() or 4

GUARD = "QTLOGGER_VERIF"


class ToolFailure(Exception):
    """The machinery itself failed (build error, TLC parse error...). Exit code 2."""


def log(*a):
    print(*a, file=sys.stderr, flush=True)


def seed_from_env(default=1):
    try:
        return int(os.environ.get("VERIF_SEED", default))
    except ValueError:
        return default


# ------------------------------------------------------------------------------------------------
# Harness build (from /repo's current working tree)
# ------------------------------------------------------------------------------------------------

FLAVOURS = {
    # pure in-process drivers: sanitizers turn memory errors on spec-generated inputs into crashes
    "asan": "-O1 -g -fno-omit-frame-pointer -fsanitize=address,undefined -fno-sanitize-recover=undefined",
    # drivers that interpose libc (virtual clock / fs) or run as crash children
    "plain": "-O1 -g",
    # the library with its network option (HttpSink), for drv_http
    "net": "-O1 -g",
    # the library built without thread support (QTLOGGER_NO_THREAD): the logger is synchronous by construction
    "nothread": "-O1 -g -DQTLOGGER_NO_THREAD",
}
FLAVOUR_CMAKE = {"net": ["-DQTLOGGER_NETWORK=ON"], "nothread": ["-DQTLOGGER_NO_THREAD=ON"]}


class _Lock:
    def __init__(self, path):
        self.path = path

    def __enter__(self):
        self.path.parent.mkdir(parents=True, exist_ok=True)
        self.f = open(self.path, "w")
        fcntl.flock(self.f, fcntl.LOCK_EX)
        return self

    def __exit__(self, *a):
        fcntl.flock(self.f, fcntl.LOCK_UN)
        self.f.close()


def ensure_harness(flavour, targets):
    """Configure (once) and incrementally build the given harness targets against REPO's working
    tree with the hook guard on.  Returns the directory holding the executables."""
    bdir = BUILD / f"h_{flavour}"
    with _Lock(BUILD / f"h_{flavour}.lock"):
        if not (bdir / "build.ninja").exists():
            bdir.mkdir(parents=True, exist_ok=True)
            cmd = ["cmake", "-G", "Ninja", "-S", str(VERIF / "harness"), "-B", str(bdir),
                   f"-DQTL_REPO={REPO}", "-DCMAKE_BUILD_TYPE=None",
                   f"-DCMAKE_CXX_FLAGS={FLAVOURS[flavour]} -D{GUARD}"] + FLAVOUR_CMAKE.get(flavour, [])
            r = subprocess.run(cmd, capture_output=True, text=True)
            if r.returncode != 0:
                raise ToolFailure("cmake configure failed:\n" + r.stdout[-3000:] + r.stderr[-3000:])
        # the repo path is baked in at configure time; re-configure if it moved
        cache = (bdir / "CMakeCache.txt").read_text()
        if f"QTL_REPO:UNINITIALIZED={REPO}" not in cache and f"QTL_REPO:PATH={REPO}" not in cache \
                and f"QTL_REPO:STRING={REPO}" not in cache:
            shutil.rmtree(bdir)
            return ensure_harness(flavour, targets)
        cmd = ["cmake", "--build", str(bdir), "-j", str(NCPU), "--target"] + list(targets)
        r = subprocess.run(cmd, capture_output=True, text=True)
        if r.returncode != 0:
            raise ToolFailure("harness build failed:\n" + r.stdout[-6000:] + r.stderr[-3000:])
    return bdir


# ------------------------------------------------------------------------------------------------
# TLC
# ------------------------------------------------------------------------------------------------

_tlc_counter = [0]


class TlcResult:
    def __init__(self):
        self.rc = None
        self.out = ""
        self.generated = 0
        self.distinct = 0
        self.left = 0
        self.depth = 0
        self.wall = 0.0
        self.violation = None      # None | "invariant X" | "property" | "deadlock" | "postcondition" | ...
        self.error = None          # tool-level error text
        self.coverage = {}         # action name -> (taken/distinct, generated)
        self.prints = []           # lines printed by PrintT in the spec

    @property
    def ok(self):
        return self.error is None and self.violation is None


def run_tlc(module, cfg=None, workers=None, env=None, simulate=None, depth=None, coverage=False,
            timeout=900, deque=False, xmx="8g", deadlock=True, spec_dir=None, extra=None,
            seed=None):
    """Run TLC on spec/<module>.tla with spec/<cfg>.  Never raises on a property violation;
    raises ToolFailure on parse errors / crashes / timeouts."""
    spec_dir = Path(spec_dir or SPEC)
    _tlc_counter[0] += 1
    meta = BUILD / f"tlc.{os.getpid()}.{_tlc_counter[0]}"
    if meta.exists():
        shutil.rmtree(meta)
    meta.mkdir(parents=True)
    # memory: several checks may run side by side (each starts JVMs of its own); the quick tier's models are small
    if os.environ.get("VERIF_TIER", "quick") == "quick" and xmx.endswith("g") and int(xmx[:-1]) > 6:
        xmx = "6g"
    java = ["java", "-XX:+UseParallelGC", f"-Xmx{xmx}", "-Xss64m"]
    if deque:
        java.append("-Dtlc2.tool.queue.IStateQueue=StateDeque")
    java += ["-cp", TLA_CP, "tlc2.TLC"]
    args = ["-metadir", str(meta), "-noGenerateSpecTE", "-workers", str(workers or "auto"), "-fpmem", "0.1"]
    if cfg:
        args += ["-config", str(cfg)]
    if not deadlock:
        args += ["-deadlock"]
    if coverage:
        args += ["-coverage", "1"]
    if simulate:
        args += ["-simulate", f"num={simulate}"]
        if seed is not None:
            args += ["-seed", str(seed)]
    if depth:
        args += ["-depth", str(depth)]
    if extra:
        args += list(extra)
    args.append(str(module))
    e = dict(os.environ)
    e.pop("JAVA_TOOL_OPTIONS", None)
    if env:
        e.update({k: str(v) for k, v in env.items()})
    t0 = time.time()
    res = TlcResult()
    try:
        p = subprocess.run(java + args, cwd=str(spec_dir), env=e, capture_output=True, text=True,
                           timeout=timeout)
        if p.returncode in (137, -9) and "Error:" not in p.stdout:
            # killed from outside (the kernel's out-of-memory killer when the machine is shared): once more, later
            time.sleep(30)
            shutil.rmtree(meta, ignore_errors=True)
            meta.mkdir(parents=True)
            p = subprocess.run(java + args, cwd=str(spec_dir), env=e, capture_output=True, text=True,
                               timeout=timeout)
    except subprocess.TimeoutExpired as ex:
        shutil.rmtree(meta, ignore_errors=True)
        raise ToolFailure(f"TLC timed out after {timeout}s on {module} {cfg}: "
                          + str((ex.stdout or b"")[-1500:]))
    finally:
        res.wall = time.time() - t0
    shutil.rmtree(meta, ignore_errors=True)
    res.rc = p.returncode
    res.out = p.stdout + p.stderr
    _parse_tlc(res)
    return res


_RE_STATES = re.compile(r"(\d+) states generated, (\d+) distinct states found, (\d+) states left on queue")
_RE_DEPTH = re.compile(r"The depth of the complete state graph search is (\d+)")
_RE_COV = re.compile(r"^<(\w+) line \d+, col \d+ to line \d+, col \d+ of module (\w+)(?: \([\d ]+\))?>: (\d+):(\d+)")


def _parse_tlc(res):
    out = res.out
    for m in _RE_STATES.finditer(out):
        res.generated, res.distinct, res.left = int(m.group(1)), int(m.group(2)), int(m.group(3))
    m = _RE_DEPTH.search(out)
    if m:
        res.depth = int(m.group(1))
    for line in out.splitlines():
        m = _RE_COV.match(line.strip())
        if m:
            name = m.group(1)
            a, b = int(m.group(3)), int(m.group(4))
            old = res.coverage.get(name, (0, 0))
            res.coverage[name] = (max(old[0], a), max(old[1], b))
        if line.startswith("<<") or line.startswith('"') or line.startswith("["):
            res.prints.append(line)
    m = re.search(r"Error: Invariant (\w+) is violated", out)
    if m:
        res.violation = "invariant " + m.group(1)
    elif "Error: Action property" in out:
        m2 = re.search(r"Error: Action property (\w+)", out)
        res.violation = "action-property " + (m2.group(1) if m2 else "?")
    elif "Temporal properties were violated" in out or re.search(r"Temporal property \w+ was violated", out):
        res.violation = "temporal"
    elif "Deadlock reached" in out:
        res.violation = "deadlock"
    elif re.search(r"Assumption .* is false", out):
        res.violation = "assumption"
    elif "Error: The postcondition" in out or "postcondition" in out.lower() and "false" in out.lower() \
            and "Error" in out:
        res.violation = "postcondition"
    elif "Error:" in out or res.rc not in (0,):
        # anything else is a tool/spec error (parse error, evaluation error, ...)
        if "Model checking completed. No error has been found" in out or \
                "Finished computing initial states" in out and "Error:" not in out and res.rc == 0:
            pass
        else:
            res.error = out[-4000:]


def tlc_must_pass(res, what):
    if res.error:
        raise ToolFailure(f"TLC failed on {what}:\n{res.error}")
    return res


# ------------------------------------------------------------------------------------------------
# Trace validation
# ------------------------------------------------------------------------------------------------

def write_ndjson(path, events):
    path = Path(path)
    path.parent.mkdir(parents=True, exist_ok=True)
    with open(path, "w") as f:
        for ev in events:
            f.write(json.dumps(ev, separators=(",", ":")) + "\n")
    return path


def read_ndjson(path):
    out = []
    with open(path) as f:
        for line in f:
            line = line.strip()
            if line:
                out.append(json.loads(line))
    return out


def validate_trace(module, cfg, trace_path, n_events, timeout=900, xmx="8g", mode="post",
                   extra_env=None):
    """Validate one ndjson trace against a Trace_* spec.
    mode 'post': deterministic trace spec, acceptance by POSTCONDITION; TLC prints
        <<"TRACE_MATCHED", k, n>> from the postcondition (k = events consumed).
    mode 'inv' : trace spec with internal steps; INVARIANT NotAccepted (violated = accepted).
    Returns (accepted, matched, result)."""
    env = {"TRACE": str(trace_path)}
    if extra_env:
        env.update(extra_env)
    if mode == "post":
        res = run_tlc(module, cfg, workers=1, env=env, timeout=timeout, xmx=xmx)
        matched = None
        for ln in res.prints:
            m = re.match(r'<<"TRACE_MATCHED", (\d+), (\d+)>>', ln)
            if m:
                matched = int(m.group(1))
        if res.error and matched is None:
            raise ToolFailure(f"trace validation {module} failed to run:\n{res.error}")
        if matched is None:
            # an invariant of the base spec was violated while replaying
            if res.violation and res.violation.startswith(("invariant", "action-property")):
                return False, max(res.depth - 1, 0), res
            raise ToolFailure(f"trace validation {module}: no TRACE_MATCHED line:\n{res.out[-3000:]}")
        if res.violation and res.violation != "postcondition":
            return False, matched, res
        return matched == n_events, matched, res
    elif mode == "max":
        # trace spec with internal steps, acceptance by the highest position reached (a TLCSet register
        # updated from a CONSTRAINT, printed by the POSTCONDITION): no counterexample has to be printed
        res = run_tlc(module, cfg, workers=1, env=env, timeout=timeout, xmx=xmx)
        matched = None
        for ln in res.prints:
            m = re.match(r'<<"TRACE_MAXL", (-?\d+)>>', ln)
            if m:
                matched = max(int(m.group(1)), 0)
        if res.violation and res.violation != "postcondition":
            ls = re.findall(r"^/\\ l = (\d+)", res.out, re.M)
            return False, max(int(ls[-1]) - 2, 0) if ls else 0, res
        if res.error and matched is None:
            raise ToolFailure(f"trace validation {module} failed to run:\n{res.error}")
        if matched is None:
            raise ToolFailure(f"trace validation {module}: no TRACE_MAXL line:\n{res.out[-3000:]}")
        return matched == n_events, matched, res
    else:
        res = run_tlc(module, cfg, workers=1, env=env, timeout=timeout, xmx=xmx, deque=True)
        if res.error:
            raise ToolFailure(f"trace validation {module} failed to run:\n{res.error}")
        if res.violation == "invariant NotAccepted":
            return True, n_events, res
        if res.violation:
            # another invariant was violated while replaying: the last state of TLC's error trace tells how
            # far the trace had been consumed (l = position of the next event)
            ls = re.findall(r"^/\\ l = (\d+)", res.out, re.M)
            return False, max(int(ls[-1]) - 2, 0) if ls else 0, res
        matched = 0
        for ln in res.prints:
            m = re.match(r'<<"TRACE_MAXL", (\d+)>>', ln)
            if m:
                matched = max(matched, int(m.group(1)))
        return False, matched, res


def split_runs(events):
    """Split a concatenated trace into runs; every run starts with an event {"e":"Reset", ...}."""
    runs = []
    for ev in events:
        if ev.get("e") == "Reset" or not runs:
            runs.append([])
        runs[-1].append(ev)
    return runs


def validate_runs(module, cfg, runs, workdir, tag, mode="post", chunk=400, max_failures=25,
                  timeout=900, extra_env=None):
    """Validate many runs (lists of events, each beginning with Reset) in chunks.  A rejected run is
    isolated, recorded, removed, and the rest of its chunk is validated again, so one failure does not
    hide the others.  Returns (n_accepted, failures) where a failure is
    dict(run_index, matched_in_run, event, run)."""
    workdir = Path(workdir)
    workdir.mkdir(parents=True, exist_ok=True)
    accepted = 0
    failures = []
    idx = list(range(len(runs)))
    pos = 0
    cno = 0
    while pos < len(idx):
        part = idx[pos:pos + chunk]
        pos += chunk
        while part:
            cno += 1
            evs = [ev for i in part for ev in runs[i]]
            tp = write_ndjson(workdir / f"{tag}.{cno}.ndjson", evs)
            ok, matched, res = validate_trace(module, cfg, tp, len(evs), mode=mode, timeout=timeout,
                                              extra_env=extra_env)
            if ok:
                accepted += len(part)
                tp.unlink()
                break
            # locate the failing run
            acc = 0
            bad = None
            for k, i in enumerate(part):
                if acc + len(runs[i]) > matched:
                    bad = k
                    break
                acc += len(runs[i])
            if bad is None:
                bad = len(part) - 1
                acc -= len(runs[part[bad]])
            i = part[bad]
            within = matched - acc
            failures.append({"run_index": i, "matched_in_run": within,
                             "event": runs[i][within] if within < len(runs[i]) else None,
                             "run": runs[i], "tlc_tail": res.out[-1500:], "violation": res.violation})
            accepted += bad
            tp.unlink()
            part = part[bad + 1:]
            if len(failures) >= max_failures:
                return accepted, failures
    return accepted, failures


# ------------------------------------------------------------------------------------------------
# Known findings, violations, evidence
# ------------------------------------------------------------------------------------------------

def load_known_findings():
    """known_findings.txt: one entry per line.
         finding: property=<id> key=<key> <what fails>      (open; suppresses exactly that key)
         fixed: property=<id> <commit> <what failed>        (documentation only; suppresses nothing)
    The file is never written at run time."""
    p = VERIF / "known_findings.txt"
    out = []
    if p.exists():
        for line in p.read_text().splitlines():
            line = line.strip()
            m = re.match(r"finding:\s+property=(\S+)\s+key=(\S+)\s+(.*)", line)
            if m:
                out.append({"property": m.group(1), "key": m.group(2), "text": m.group(3), "status": "open"})
    return out


def open_findings(pid):
    return {k["key"]: k for k in load_known_findings() if k["property"] == pid}


def save_replay(pid, name, payload):
    d = REPLAYS / pid
    d.mkdir(parents=True, exist_ok=True)
    p = d / name
    if isinstance(payload, (dict, list)):
        p.write_text(json.dumps(payload, indent=1))
    else:
        p.write_text(payload)
    return p


def report_violation(pid, replay_path):
    print(f"VIOLATION property={pid} replay={replay_path}", flush=True)


def report_known(pid, what):
    print(f"KNOWN-FINDING: property={pid} {what}", flush=True)


def write_evidence(pid, tier, seed, level, coverage, wall_s, violations, assumptions):
    EVID.mkdir(exist_ok=True)
    doc = {"property_id": pid, "tier": tier, "seed": int(seed), "level": level,
           "coverage": coverage, "assumptions": assumptions, "wall_s": round(wall_s, 2),
           "violations": int(violations)}
    (EVID / f"{pid}.json").write_text(json.dumps(doc, indent=1))


def cov_table(res):
    return {k: {"taken": v[0], "generated": v[1]} for k, v in sorted(res.coverage.items())}


_RE_EXPR = re.compile(r"^  line (\d+), col \d+ to line (\d+), col \d+ of module (\w+): (\d+)")


def action_fired(res, module):
    """How often each action definition of spec/<module>.tla produced a successor, read off TLC's expression-level
    coverage: the count of the last top-level conjunct of the definition (for modules whose next-state relation is not a
    plain disjunction of named actions, where TLC reports only "Next")."""
    lines = (SPEC / f"{module}.tla").read_text().splitlines()
    defs = []                                  # (name, first line, last line), 1-based
    for i, l in enumerate(lines, 1):
        m = re.match(r"^([A-Z]\w*)(\([^)]*\))? ==", l)
        if m:
            if defs:
                defs[-1][2] = i - 1
            defs.append([m.group(1), i, len(lines)])
    last = {}
    for l in res.out.splitlines():
        m = _RE_EXPR.match(l)
        if not m or m.group(3) != module:
            continue
        a, n = int(m.group(1)), int(m.group(4))
        for name, lo, hi in defs:
            if lo <= a <= hi:
                if name not in last or a >= last[name][0]:
                    last[name] = (a, max(n, last[name][1]) if name in last and last[name][0] == a else n)
                break
    return {k: v[1] for k, v in sorted(last.items())}


def check_coverage(res, required, what):
    """Vacuity guard: every action in `required` must have been taken at least once."""
    missing = [a for a in required if res.coverage.get(a, (0, 0))[1] == 0]
    if missing:
        raise ToolFailure(f"vacuity: actions never taken in {what}: {missing}")


# ------------------------------------------------------------------------------------------------
# Apalache (symbolic; used for inductive steps of small modules, always under a timeout)
# ------------------------------------------------------------------------------------------------

def run_apalache(module, init, inv, length, timeout=900, cinit=None, next_=None):
    """apalache-mc check --init --inv --length on spec/<module>.tla ; returns "NoError" | "Error" | "timeout" | "failed" """
    outdir = BUILD / f"apalache.{os.getpid()}"
    cmd = ["apalache-mc", "check", f"--init={init}", f"--inv={inv}", f"--length={length}", f"--out-dir={outdir}",
           str(SPEC / f"{module}.tla")]
    if cinit:
        cmd.insert(2, f"--cinit={cinit}")
    if next_:
        cmd.insert(2, f"--next={next_}")
    try:
        p = subprocess.run(cmd, cwd=SPEC, capture_output=True, text=True, timeout=timeout)
    except subprocess.TimeoutExpired:
        shutil.rmtree(outdir, ignore_errors=True)
        return "timeout"
    except FileNotFoundError:
        return "failed"
    shutil.rmtree(outdir, ignore_errors=True)
    out = p.stdout + p.stderr
    if "The outcome is: NoError" in out:
        return "NoError"
    if "The outcome is: Error" in out:
        return "Error"
    return "failed"
