// Conformance driver for spec/QtlSignal.tla (SignalSink / sendToSignal; beyond the listed properties).
//
//   drv_signal <scenarios.ndjson>     one line per scenario:
//        {"id":n, "async":bool, "fluent":bool, "msgs":[{"by":"M"|"P", "id":k, "type":..., "text":[units], "file":..., "func":..., "cat":..., "line":n}, ...]}
//
// The receiver object lives in the main thread "M" (which runs the event loop).  Messages are logged by the main
// thread itself and by a producer thread "P"; with "async" the logger runs its pipeline on its own thread "W".
// A probe handler right in front of the SignalSink logs "Emit" (thread, fields of the message in the pipeline), the
// receiver's slot logs "Slot" (thread, fields of the message it was given).  Context strings are passed in heap
// buffers that are overwritten and freed as soon as the log call returns.
#include <QCoreApplication>
#include <QFile>
#include <QJsonArray>
#include <QJsonDocument>
#include <QJsonObject>
#include <QThread>

#include <atomic>
#include <cstring>
#include <map>
#include <mutex>
#include <thread>
#include <vector>

#include "functionhandler.h"
#include "logger.h"
#include "sinks/signalsink.h"
#include "trace.h"

using namespace QtLogger;
using vtrace::units;

namespace {

std::atomic<long long> g_stamp { 0 };
std::mutex g_evMutex;
std::vector<std::pair<long long, QJsonObject>> g_events;
QThread *g_main = nullptr;
std::atomic<QThread *> g_worker { nullptr };

QString tagOfCurrent()
{
    QThread *t = QThread::currentThread();
    if (t == g_main) return QStringLiteral("M");
    if (t == g_worker.load()) return QStringLiteral("W");
    return QStringLiteral("P");
}

QJsonObject fieldsOf(const LogMessage &m)
{
    QJsonObject o;
    const QString text = m.message();
    // the scenario's message id travels in the text: "m<id>:..."
    o["id"] = text.mid(1, text.indexOf(':') - 1).toInt();
    o["type"] = int(m.type());
    o["text"] = units(text);
    o["file"] = units(QString::fromUtf8(m.file()));
    o["func"] = units(QString::fromUtf8(m.function()));
    o["cat"] = units(QString::fromUtf8(m.category()));
    o["line"] = m.line();
    o["tid"] = QString::number(m.threadId());
    o["ms"] = QString::number(m.time().toMSecsSinceEpoch());
    o["seq"] = m.attribute(QStringLiteral("probe_seq")).toInt();
    return o;
}

void record(const char *kind, const LogMessage &m)
{
    QJsonObject o;
    o["e"] = kind;
    o["t"] = tagOfCurrent();
    o["m"] = fieldsOf(m);
    const long long s = ++g_stamp;
    std::lock_guard<std::mutex> g(g_evMutex);
    g_events.emplace_back(s, o);
}

QtMsgType typeOf(const QString &t)
{
    if (t == "info") return QtInfoMsg;
    if (t == "warning") return QtWarningMsg;
    if (t == "critical") return QtCriticalMsg;
    return QtDebugMsg;
}

void logOne(Logger &logger, const QJsonObject &m)
{
    const QByteArray file = vtrace::fromUnits(m["file"].toArray()).toUtf8();
    const QByteArray func = vtrace::fromUnits(m["func"].toArray()).toUtf8();
    const QByteArray cat = vtrace::fromUnits(m["cat"].toArray()).toUtf8();
    char *fb = strdup(file.constData()), *nb = strdup(func.constData()), *cb = strdup(cat.constData());
    {
        QMessageLogContext ctx(fb, m["line"].toInt(), nb, cb);
        logger.processMessage(typeOf(m["type"].toString()), ctx, vtrace::fromUnits(m["text"].toArray()));
    }
    memset(fb, '#', strlen(fb));
    memset(nb, '#', strlen(nb));
    memset(cb, '#', strlen(cb));
    free(fb);
    free(nb);
    free(cb);
}

} // namespace

class Receiver : public QObject
{
    Q_OBJECT
public Q_SLOTS:
    void onMessage(const QtLogger::LogMessage &m) { record("Slot", m); }
};

int main(int argc, char **argv)
{
    QCoreApplication app(argc, argv);
    if (argc < 2)
        return 2;
    QFile in(QString::fromLocal8Bit(argv[1]));
    if (!in.open(QIODevice::ReadOnly))
        return 2;
    g_main = QThread::currentThread();
    qRegisterMetaType<QtLogger::LogMessage>("QtLogger::LogMessage");
    vtrace::Writer out;
    while (!in.atEnd()) {
        const QByteArray line = in.readLine();
        if (line.trimmed().isEmpty())
            continue;
        const QJsonObject scn = QJsonDocument::fromJson(line).object();
        g_events.clear();
        g_worker.store(nullptr);
        {
            QJsonObject r;
            r["e"] = "Reset";
            r["scn"] = scn["id"];
            out.put(r);
        }
        Receiver recv;
        int probeSeq = 0;
        {
            Logger logger;
            logger.append(FunctionHandlerPtr::create([&probeSeq](LogMessage &m) {
                m.setAttribute(QStringLiteral("probe_seq"), ++probeSeq);       // attributes travel with the copy as well
                record("Emit", m);
                return true;
            }));
            if (scn["fluent"].toBool()) {
                logger.sendToSignal(&recv, SLOT(onMessage(QtLogger::LogMessage)));
            } else {
                auto sink = SignalSinkPtr::create();
                QObject::connect(sink.data(), &SignalSink::message, &recv, &Receiver::onMessage);
                logger.append(sink);
            }
            if (scn["async"].toBool()) {
                logger.moveToOwnThread();
                g_worker.store(logger.ownThread());
            }
            const QJsonArray msgs = scn["msgs"].toArray();
            std::thread producer([&] {
                for (const auto &v : msgs) {
                    const QJsonObject m = v.toObject();
                    if (m["by"].toString() == "P") {
                        logOne(logger, m);
                        if (m["id"].toInt() % 3 == 0)
                            std::this_thread::yield();
                    }
                }
            });
            for (const auto &v : msgs) {
                const QJsonObject m = v.toObject();
                if (m["by"].toString() == "M") {
                    logOne(logger, m);
                    if (m["id"].toInt() % 2 == 0)
                        QCoreApplication::processEvents();
                }
            }
            producer.join();
            if (scn["async"].toBool())
                logger.resetOwnThread();          // drains what the logger thread still has
        }
        // the receiver's event loop gets to everything that was posted
        for (int i = 0; i < 50; ++i) {
            QCoreApplication::sendPostedEvents();
            QCoreApplication::processEvents();
        }
        std::sort(g_events.begin(), g_events.end(), [](const auto &a, const auto &b) { return a.first < b.first; });
        for (const auto &e : g_events)
            out.put(e.second);
        QJsonObject d;
        d["e"] = "Done";
        out.put(d);
    }
    out.flush();
    return 0;
}

#include "drv_signal.moc"
