// Conformance driver for spec/QtlConfig.tla (property C19).
//
//   drv_config ini <scenario.json>       child: Logger configured from an INI file, scripted messages, exit
//   drv_config oneline <scenario.json>   child: Logger::configure(path, size, count, options, async)
//   drv_config install <histories.json>  in-process: install / restore / foreign-handler histories; the handler
//                                        Qt currently calls is read after every step
//   drv_config utils <histories.json>    one forked child per history: setMessagePattern / restorePrevious /
//                                        direct qSetMessagePattern calls (returned text + a formatted probe after
//                                        every step), and setFilterRules probes (spec/QtlUtils.tla)
// In the child modes the parent captures stdout, stderr and the log file.
#include <QCoreApplication>
#include <QFile>
#include <QJsonArray>
#include <QJsonDocument>
#include <QJsonObject>
#include <QDateTime>
#include <QDir>
#include <QLoggingCategory>
#include <QTemporaryDir>
#include <QSettings>
#include <QTimer>

#include <iostream>
#include <sys/wait.h>
#include <unistd.h>

#include "functionhandler.h"
#include "logger.h"
#include "sinks/filesink.h"
#include "utils.h"

using namespace QtLogger;

static void emitMessages(const QJsonArray &msgs)
{
    for (const auto &v : msgs) {
        const QJsonObject m = v.toObject();
        const QByteArray cat = m["cat"].toString().toUtf8();
        const QByteArray text = m["text"].toString().toUtf8();
        const QString type = m["type"].toString();
        QMessageLogger ml("src/config.cpp", m["line"].toInt(7), "void emitMessages()", cat.constData());
        if (type == "debug") ml.debug("%s", text.constData());
        else if (type == "info") ml.info("%s", text.constData());
        else if (type == "warning") ml.warning("%s", text.constData());
        else ml.critical("%s", text.constData());
    }
}

static const char *g_rcv = "nobody";        // who saw the last message emitted through Qt's macros
static void fA(QtMsgType, const QMessageLogContext &, const QString &) { g_rcv = "f1"; }
static void fB(QtMsgType, const QMessageLogContext &, const QString &) { g_rcv = "f2"; }

static const char *nameOf(QtMessageHandler h, QtMessageHandler def)
{
    if (h == def || h == nullptr) return "default";
    if (h == Logger::messageHandler) return "logger";
    if (h == fA) return "f1";
    if (h == fB) return "f2";
    return "?";
}

static QtMessageHandler peek()
{
    QtMessageHandler cur = qInstallMessageHandler(fA);
    qInstallMessageHandler(cur);
    return cur;
}

int main(int argc, char **argv)
{
    QCoreApplication app(argc, argv);
    if (argc < 3)
        return 2;
    const QString mode = QString::fromLocal8Bit(argv[1]);
    QFile in(QString::fromLocal8Bit(argv[2]));
    if (!in.open(QIODevice::ReadOnly))
        return 2;
    const QByteArray all = in.readAll();
    in.close();

    if (mode == "install") {
        const QtMessageHandler def = peek();
        for (const QByteArray &line : all.split('\n')) {
            if (line.trimmed().isEmpty())
                continue;
            const QJsonObject h = QJsonDocument::fromJson(line).object();
            qInstallMessageHandler(nullptr);
            Logger::restorePreviousMessageHandler();      // forget what an earlier history saved
            qInstallMessageHandler(nullptr);
            // "however often install was called": also by other loggers; each logger tells when a message reaches it
            Logger *a = new Logger, *b = new Logger;
            a->append(FunctionHandlerPtr::create([](LogMessage &) { g_rcv = "a"; return true; }));
            b->append(FunctionHandlerPtr::create([](LogMessage &) { g_rcv = "b"; return true; }));
            QJsonObject r;
            r["e"] = "Reset";
            r["id"] = h["id"];
            std::cout << QJsonDocument(r).toJson(QJsonDocument::Compact).constData() << "\n";
            for (const auto &v : h["ops"].toArray()) {
                const QString op = v.toString();
                if (op == "install") a->installMessageHandler();
                else if (op == "install2") b->installMessageHandler();
                else if (op == "kill") { delete a; a = nullptr; }
                else if (op == "kill2") { delete b; b = nullptr; }
                else if (op == "log") { g_rcv = "nobody"; QMessageLogger("h.cpp", 1, "void h()", "hist").info("probe"); }
                else if (op == "restore") Logger::restorePreviousMessageHandler();
                else if (op == "f1") qInstallMessageHandler(fA);
                else if (op == "f2") qInstallMessageHandler(fB);
                QJsonObject o;
                o["e"] = "Op";
                o["op"] = op;
                o["cur"] = nameOf(peek(), def);
                if (op == "log") o["rcv"] = g_rcv;
                std::cout << QJsonDocument(o).toJson(QJsonDocument::Compact).constData() << "\n";
            }
            qInstallMessageHandler(nullptr);
            delete a;
            delete b;
        }
        std::cout.flush();
        return 0;
    }

    if (mode == "utils") {
        for (const QByteArray &line : all.split('\n')) {
            if (line.trimmed().isEmpty())
                continue;
            std::cout.flush();
            const pid_t pid = fork();
            if (pid == 0) {
                const QJsonObject h = QJsonDocument::fromJson(line).object();
                auto put = [](const QJsonObject &o) {
                    std::cout << QJsonDocument(o).toJson(QJsonDocument::Compact).constData() << "\n";
                };
                QJsonObject r;
                r["e"] = "Reset";
                r["id"] = h["id"];
                put(r);
                for (const auto &v : h["ops"].toArray()) {
                    const QJsonObject op = v.toObject();
                    const QString kind = op["op"].toString();
                    QJsonObject o;
                    if (kind == "timepath") {
                        // FileSink expands a %{time <format>} pattern in its path when it is constructed
                        o["e"] = "TimePath";
                        o["arg"] = op["arg"];
                        QTemporaryDir tmp;
                        const QString fmt = op["fmt"].toString();
                        const QString eff = fmt.isEmpty() ? QStringLiteral("yyyyMMdd_hhmmss") : fmt;
                        QJsonArray rendered;
                        rendered.append(QDateTime::currentDateTime().toString(eff));
                        {
                            FileSink sink(tmp.path() + QStringLiteral("/") + op["arg"].toString());
                            QMessageLogContext ctx("f.cpp", 1, "void f()", "c");
                            LogMessage m(QtInfoMsg, ctx, QStringLiteral("x"));
                            sink.send(m);
                            sink.flush();
                        }
                        rendered.append(QDateTime::currentDateTime().toString(eff));
                        o["rendered"] = rendered;
                        QJsonArray names;
                        for (const QString &n : QDir(tmp.path()).entryList(QDir::Files | QDir::Hidden, QDir::Name))
                            names.append(n);
                        o["names"] = names;
                    } else if (kind == "rules") {
                        o["e"] = "Rules";
                        o["arg"] = op["arg"];
                        auto probe = [&op]() {
                            QJsonArray res;
                            for (const auto &pv : op["probes"].toArray()) {
                                const QByteArray cat = pv.toArray().at(0).toString().toUtf8();
                                QLoggingCategory c(cat.constData());
                                res.append(c.isEnabled(QtMsgType(pv.toArray().at(1).toInt())));
                            }
                            return res;
                        };
                        QtLogger::setFilterRules(op["arg"].toString());
                        o["got"] = probe();
                        QLoggingCategory::setFilterRules(op["joined"].toString());
                        o["want"] = probe();
                        QLoggingCategory::setFilterRules(QString());
                    } else {
                        o["e"] = "P";
                        o["op"] = kind;
                        if (kind == "set")
                            o["ret"] = QtLogger::setMessagePattern(op["text"].toString(QStringLiteral("")));
                        else if (kind == "restore")
                            o["ret"] = QtLogger::restorePreviousMessagePattern();
                        else
                            qSetMessagePattern(op["text"].toString(QStringLiteral("")));
                        QMessageLogContext ctx("f.cpp", 3, "void g()", "c");
                        o["probe"] = qFormatLogMessage(QtWarningMsg, ctx, QStringLiteral("x"));
                        o["arg"] = op["arg"];
                    }
                    put(o);
                }
                std::cout.flush();
                _exit(0);
            }
            int st = 0;
            waitpid(pid, &st, 0);
            if (!WIFEXITED(st) || WEXITSTATUS(st) != 0) {
                std::cerr << "utils child failed\n";
                return 3;
            }
        }
        return 0;
    }

    const QJsonObject scn = QJsonDocument::fromJson(all).object();
    const bool async = scn["async"].toBool();
    {
        Logger logger;
        if (mode == "ini") {
            if (scn["viaSettings"].toBool()) {
                QSettings s(scn["ini"].toString(), QSettings::IniFormat);
                logger.configure(s, scn["group"].toString("logger"));
            } else {
                logger.configureFromIniFile(scn["ini"].toString(), scn["group"].toString("logger"));
            }
        } else {
            logger.configure(scn["path"].toString(), scn["L"].toInt(), scn["N"].toInt(),
                             RotatingFileSink::Options(scn["opts"].toInt()), async);
        }
        emitMessages(scn["msgs"].toArray());
        if (async) {
            // the documented way to drain an asynchronous logger: quit through the event loop
            QTimer::singleShot(0, &app, &QCoreApplication::quit);
            app.exec();
        }
        logger.flush();
        Logger::restorePreviousMessageHandler();
    }
    std::cout.flush();
    std::cerr.flush();
    return 0;
}
