// Conformance driver for spec/QtlPipeline.tla (properties C01, C16; category verdicts for C15).
//
// Input: one JSON scenario per line: {"id":n,"ops":[...]}.  Every op is executed on REAL qtlogger
// objects (Pipeline, SimplePipeline and its fluent calls, FunctionAttrHandler, SeqNumberAttr,
// FunctionFilter, LevelFilter, DuplicateFilter, RegExpFilter, CategoryFilter, FunctionFormatter,
// FunctionHandler, a recording Sink) and one ndjson event per op is written; while a message is
// processed every observable handler logs the message state it is called with (formatted flag and
// text, attribute map).  spec/Trace_Pipeline.tla replays the events through the spec's actions.
#include <QBuffer>
#include <QCoreApplication>
#include <QFile>
#include <QHash>
#include <QJsonArray>
#include <QJsonDocument>
#include <QJsonObject>
#include <QRegularExpression>

#include <algorithm>
#include <iostream>

#include "attrhandlers/functionattrhandler.h"
#include "attrhandlers/seqnumberattr.h"
#include "filters/categoryfilter.h"
#include "filters/duplicatefilter.h"
#include "filters/functionfilter.h"
#include "filters/levelfilter.h"
#include "filters/regexpfilter.h"
#include "formatters/functionformatter.h"
#include "functionhandler.h"
#include "pipeline.h"
#include "simplepipeline.h"
#include "trace.h"

using namespace QtLogger;
using vtrace::fromUnits;
using vtrace::units;

namespace {

vtrace::Writer *g_out = nullptr;

QtMsgType typeOf(const QString &s)
{
    if (s == "debug") return QtDebugMsg;
    if (s == "info") return QtInfoMsg;
    if (s == "warning") return QtWarningMsg;
    if (s == "critical") return QtCriticalMsg;
    return QtFatalMsg;
}

const char *typeName(QtMsgType t)
{
    switch (t) {
    case QtDebugMsg: return "debug";
    case QtInfoMsg: return "info";
    case QtWarningMsg: return "warning";
    case QtCriticalMsg: return "critical";
    case QtFatalMsg: return "fatal";
    }
    return "?";
}

QJsonArray attrsJson(const QVariantHash &attrs)
{
    QStringList keys = attrs.keys();
    std::sort(keys.begin(), keys.end());
    QJsonArray a;
    for (const auto &k : keys) {
        const QVariant v = attrs.value(k);
        QJsonObject o;
        o["k"] = k;
        if (v.type() == QVariant::String) {
            o["t"] = "s";
            o["v"] = units(v.toString());
        } else if (v.type() == QVariant::Int || v.type() == QVariant::LongLong || v.type() == QVariant::UInt) {
            o["t"] = "i";
            QJsonArray one;
            one.append(v.toInt());
            o["v"] = one;
        } else {
            o["t"] = QString::fromLatin1(v.typeName());
            o["v"] = units(v.toString());
        }
        a.append(o);
    }
    return a;
}

QJsonObject fmtJson(const LogMessage &m)
{
    QJsonObject f;
    f["f"] = m.isFormatted();
    f["t"] = m.isFormatted() ? units(m.formattedMessage()) : QJsonArray();
    return f;
}

void logCall(int id, const LogMessage &m)
{
    QJsonObject o;
    o["e"] = "H";
    o["h"] = id;
    o["fmt"] = fmtJson(m);
    o["attrs"] = attrsJson(m.attributes());
    o["text"] = units(m.formattedMessage());
    o["raw"] = units(m.message());
    g_out->put(o);
}

QVariant attrValue(const QJsonObject &e)
{
    if (e["t"].toString() == "i")
        return QVariant(e["v"].toArray().at(0).toInt());
    return QVariant(fromUnits(e["v"].toArray()));
}

QList<int> g_flushed;

class RecSink : public Sink
{
public:
    explicit RecSink(int id) : m_id(id) { }
    void send(const LogMessage &lmsg) override { logCall(m_id, lmsg); }
    bool flush() override
    {
        g_flushed.append(m_id);
        return m_id % 2 == 0;           // some sinks report failure: the walk must go on
    }

private:
    int m_id;
};

QString regexText(const QJsonObject &d)
{
    const QString rx = d["rx"].toString();
    const QString lit = QRegularExpression::escape(fromUnits(d["lit"].toArray()));
    const QString lit2 = QRegularExpression::escape(fromUnits(d["lit2"].toArray()));
    if (rx == "contains") return lit;
    if (rx == "prefix") return "^" + lit;
    if (rx == "suffix") return lit + "$";
    if (rx == "emptyonly") return "^$";
    if (rx == "any") return ".*";
    if (rx == "alt") return lit + "|" + lit2;
    if (rx == "icontains") return "(?i)" + lit;
    if (rx == "xcontains") {
        // extended pattern syntax: white space in the pattern is ignored, '#' starts a comment
        QString spaced;
        for (const QChar c : fromUnits(d["lit"].toArray()))
            spaced += QRegularExpression::escape(QString(c)) + QStringLiteral("  ");
        return spaced + QStringLiteral("# the literal, spelled out");
    }
    if (rx == "backref") return "([ab])\\1";            // a doubled 'a' or 'b' (numbered back-reference)
    if (rx == "group") return "(" + lit + ")+$";         // a capturing group with a quantifier
    return lit;
}

std::function<QVariantHash(const LogMessage &)> attrFn(int id, const QJsonObject &d)
{
    QVariantHash sets;
    for (const auto &v : d["sets"].toArray()) {
        const auto e = v.toObject();
        sets.insert(e["k"].toString(), attrValue(e));
    }
    return [id, sets](const LogMessage &m) {
        logCall(id, m);
        return sets;
    };
}

std::function<bool(const LogMessage &)> filterFn(int id, const QJsonObject &d)
{
    const QString mode = d["mode"].toString();
    const QJsonValue arg = d["arg"];
    return [id, mode, arg](const LogMessage &m) {
        logCall(id, m);
        if (mode == "const") return arg.toBool();
        if (mode == "hasattr") return m.hasAttribute(arg.toString());
        if (mode == "isfmt") return m.isFormatted();
        if (mode == "type") return m.type() == typeOf(arg.toString());
        return true;
    };
}

std::function<QString(const LogMessage &)> fmtFn(int id, const QJsonObject &d)
{
    const QString mode = d["mode"].toString();
    const QString tag = fromUnits(d["tag"].toArray());
    const QString key = d["key"].toString();
    return [id, mode, tag, key](const LogMessage &m) {
        logCall(id, m);
        QString r = tag;
        if (r.isNull())
            r = QString(""); // non-null: a formatter returning a null string is a different (excluded) case
        if (mode == "wrap") r += m.formattedMessage();
        else if (mode == "attr") r += m.hasAttribute(key) ? m.attribute(key).toString() : QString();
        else if (mode == "raw") r += m.message();
        return r;
    };
}

std::function<bool(LogMessage &)> genFn(int id, const QJsonObject &d)
{
    const QJsonArray effects = d["effects"].toArray();
    const bool ret = d["ret"].toBool(true);
    return [id, effects, ret](LogMessage &m) {
        logCall(id, m);
        for (const auto &v : effects) {
            const auto e = v.toObject();
            const QString op = e["op"].toString();
            if (op == "set") m.setAttribute(e["k"].toString(), attrValue(e));
            else if (op == "remove") m.removeAttribute(e["k"].toString());
            else if (op == "setfmt") {
                QString t = fromUnits(e["v"].toArray());
                if (t.isNull()) t = QString("");
                m.setFormattedMessage(t);
            } else if (op == "clearfmt") m.setFormattedMessage(QString());
        }
        return ret;
    };
}

HandlerPtr makeLeaf(int id, const QJsonObject &d)
{
    const QString kind = d["kind"].toString();
    if (kind == "attr") return FunctionAttrHandlerPtr::create(attrFn(id, d));
    if (kind == "seq") return SeqNumberAttrPtr::create(d["name"].toString());
    if (kind == "filter") return FunctionFilterPtr::create(filterFn(id, d));
    if (kind == "level") return LevelFilterPtr::create(typeOf(d["min"].toString()));
    if (kind == "dup") return DuplicateFilterPtr::create();
    if (kind == "regex") {
        if (d["rx"].toString() == "xcontains")
            return RegExpFilterPtr::create(QRegularExpression(regexText(d), QRegularExpression::ExtendedPatternSyntaxOption));
        if (d["ctor"].toString() == "qre")
            return RegExpFilterPtr::create(QRegularExpression(regexText(d)));
        return RegExpFilterPtr::create(regexText(d));
    }
    if (kind == "cat") return CategoryFilterPtr::create(d["rtext"].toString());
    if (kind == "fmt") return FunctionFormatterPtr::create(fmtFn(id, d));
    if (kind == "gen") return FunctionHandlerPtr::create(genFn(id, d));
    if (kind == "sink") return QSharedPointer<RecSink>::create(id);
    if (kind == "probe") {
        QJsonObject p;
        p["ret"] = true;
        return FunctionHandlerPtr::create(genFn(id, p));
    }
    return HandlerPtr();
}

// the same leaf through SimplePipeline's fluent interface; returns false if no fluent form exists
bool fluentLeaf(SimplePipeline &p, int id, const QJsonObject &d)
{
    const QString kind = d["kind"].toString();
    if (kind == "attr") p.attrHandler(attrFn(id, d));
    else if (kind == "seq") p.addSeqNumber(d["name"].toString());
    else if (kind == "filter") p.filter(filterFn(id, d));
    else if (kind == "level") p.filterLevel(typeOf(d["min"].toString()));
    else if (kind == "dup") p.filterDuplicate();
    else if (kind == "regex" && d["rx"].toString() == "xcontains")
        p << makeLeaf(id, d);  // pattern options cannot be passed through filter(QString): the stream operator instead
    else if (kind == "regex") p.filter(regexText(d));
    else if (kind == "cat") p.filterCategory(d["rtext"].toString());
    else if (kind == "fmt") p.format(fmtFn(id, d));
    else if (kind == "gen") p.handler(genFn(id, d));
    else if (kind == "probe") {
        QJsonObject q;
        q["ret"] = true;
        p.handler(genFn(id, q));
    } else
        return false;
    return true;
}

struct Scenario
{
    QHash<int, HandlerPtr> objs;            // identity -> object (keeps everything alive)
    QHash<const Handler *, int> ids;        // object -> identity
    QHash<int, SimplePipeline *> simple;    // identities that are SimplePipelines
    QHash<int, Pipeline *> pipes;

    QJsonArray itemsOf(int p) const
    {
        QJsonArray a;
        const Pipeline *pl = pipes.value(p);
        for (const auto &h : pl->handlers())
            a.append(h ? ids.value(h.data(), -1) : 0);
        return a;
    }
};

} // namespace

int main(int argc, char **argv)
{
    if (argc < 2) {
        std::cerr << "usage: drv_pipeline <scenarios.ndjson>\n";
        return 2;
    }
    QFile in(QString::fromLocal8Bit(argv[1]));
    if (!in.open(QIODevice::ReadOnly)) {
        std::cerr << "cannot open " << argv[1] << "\n";
        return 2;
    }
    vtrace::Writer out;
    g_out = &out;

    while (!in.atEnd()) {
        const QByteArray line = in.readLine().trimmed();
        if (line.isEmpty())
            continue;
        const QJsonObject scn = QJsonDocument::fromJson(line).object();
        Scenario S;
        int root = 0;
        {
            QJsonObject o;
            o["e"] = "Reset";
            o["scn"] = scn["id"];
            out.put(o);
        }
        for (const auto &v : scn["ops"].toArray()) {
            const QJsonObject op = v.toObject();
            const QString name = op["op"].toString();
            QJsonObject ev;
            if (name == "new") {
                const int id = op["id"].toInt();
                const QJsonObject d = op["d"].toObject();
                HandlerPtr h;
                if (d["kind"].toString() == "pipe") {
                    if (d["cls"].toString() == "simple") {
                        auto sp = SimplePipelinePtr::create(d["scoped"].toBool());
                        S.simple.insert(id, sp.data());
                        S.pipes.insert(id, sp.data());
                        h = sp;
                    } else {
                        auto pl = PipelinePtr::create(d["scoped"].toBool());
                        S.pipes.insert(id, pl.data());
                        h = pl;
                    }
                } else {
                    h = makeLeaf(id, d);
                }
                S.objs.insert(id, h);
                S.ids.insert(h.data(), id);
                ev["e"] = "New";
                ev["id"] = id;
                ev["d"] = d;
            } else if (name == "append") {
                const int p = op["p"].toInt(), h = op["h"].toInt();
                HandlerPtr hp = h ? S.objs.value(h) : HandlerPtr();
                if (op["via"].toString() == "shl")
                    *S.pipes.value(p) << hp;
                else
                    S.pipes.value(p)->append(hp);
                ev["e"] = "Append";
                ev["p"] = p;
                ev["h"] = h;
                ev["items"] = S.itemsOf(p);
            } else if (name == "appendList") {
                const int p = op["p"].toInt();
                const QJsonArray hs = op["hs"].toArray();
                // std::initializer_list cannot be built at run time: go through the documented
                // list overload with 1..3 elements
                QList<HandlerPtr> l;
                for (const auto &x : hs)
                    l.append(x.toInt() ? S.objs.value(x.toInt()) : HandlerPtr());
                Pipeline *pl = S.pipes.value(p);
                if (l.size() == 1) pl->append({ l[0] });
                else if (l.size() == 2) pl->append({ l[0], l[1] });
                else pl->append({ l[0], l[1], l[2] });
                ev["e"] = "AppendList";
                ev["p"] = p;
                ev["hs"] = hs;
                ev["items"] = S.itemsOf(p);
            } else if (name == "fluent") {
                const int p = op["p"].toInt(), id = op["id"].toInt();
                const QJsonObject d = op["d"].toObject();
                SimplePipeline *sp = S.simple.value(p);
                if (!sp || !fluentLeaf(*sp, id, d)) {
                    std::cerr << "bad fluent op\n";
                    return 2;
                }
                const auto &hl = static_cast<const Pipeline *>(sp)->handlers();
                const HandlerPtr h = hl.isEmpty() ? HandlerPtr() : hl.last();
                if (h && !S.ids.contains(h.data())) {
                    S.objs.insert(id, h);
                    S.ids.insert(h.data(), id);
                }
                ev["e"] = "Fluent";
                ev["p"] = p;
                ev["id"] = id;
                ev["d"] = d;
                ev["items"] = S.itemsOf(p);
            } else if (name == "child") {
                const int p = op["p"].toInt(), id = op["id"].toInt();
                SimplePipeline *sp = S.simple.value(p);
                SimplePipeline &c = sp->pipeline();
                const HandlerPtr h = static_cast<const Pipeline *>(sp)->handlers().last();
                S.objs.insert(id, h);
                S.ids.insert(h.data(), id);
                S.simple.insert(id, &c);
                S.pipes.insert(id, &c);
                ev["e"] = "Child";
                ev["p"] = p;
                ev["id"] = id;
                ev["same"] = (h.data() == static_cast<Handler *>(&c));
                ev["items"] = S.itemsOf(p);
            } else if (name == "end") {
                const int p = op["p"].toInt();
                SimplePipeline &r = S.simple.value(p)->end();
                ev["e"] = "End";
                ev["p"] = p;
                ev["ret"] = S.ids.value(static_cast<Handler *>(&r), -1);
            } else if (name == "remove") {
                const int p = op["p"].toInt(), h = op["h"].toInt();
                S.pipes.value(p)->remove(h ? S.objs.value(h) : HandlerPtr());
                ev["e"] = "Remove";
                ev["p"] = p;
                ev["h"] = h;
                ev["items"] = S.itemsOf(p);
            } else if (name == "clear") {
                const int p = op["p"].toInt();
                S.pipes.value(p)->clear();
                ev["e"] = "Clear";
                ev["p"] = p;
                ev["items"] = S.itemsOf(p);
            } else if (name == "flush") {
                const int p = op["p"].toInt();
                g_flushed.clear();
                S.simple.value(p)->flush();
                ev["e"] = "Flush";
                ev["p"] = p;
                QJsonArray a;
                for (int i : g_flushed)
                    a.append(i);
                ev["sinks"] = a;
            } else if (name == "root") {
                root = op["p"].toInt();
                ev["e"] = "Root";
                ev["p"] = root;
            } else if (name == "msg") {
                const QString type = op["type"].toString();
                const QString text = op["text"].isNull() ? QString() : fromUnits(op["text"].toArray());
                const QByteArray cat = fromUnits(op["cat"].toArray()).toLatin1();
                ev["e"] = "Start";
                ev["type"] = type;
                ev["text"] = units(text);
                ev["cat"] = op["cat"];
                out.put(ev);
                QMessageLogContext ctx("file.cpp", 7, "void f()", cat.constData());
                LogMessage lmsg(typeOf(type), ctx, text);
                const bool r = S.pipes.value(root)->process(lmsg);
                QJsonObject fin;
                fin["e"] = "Finish";
                fin["ret"] = r;
                fin["type"] = typeName(lmsg.type());
                fin["fmt"] = fmtJson(lmsg);
                fin["attrs"] = attrsJson(lmsg.attributes());
                out.put(fin);
                continue;
            } else {
                std::cerr << "unknown op " << name.toStdString() << "\n";
                return 2;
            }
            out.put(ev);
        }
        // break reference cycles (a pipeline shared below itself is never generated, but be safe)
        for (auto *p : S.pipes)
            p->clear();
    }
    out.flush();
    return 0;
}
