// Conformance driver for spec/QtlPattern.tla (property C12).
//
// Input: one JSON case per line: the pattern text (as UTF-16 code units), the message (type, text, category,
// file, line, function) and its custom attributes.  The REAL PatternFormatter formats the message; the output
// goes back as code units together with the values only the library / Qt know (thread id, QThread pointer,
// the message time rendered with the formats the case asks for).
#include <QCoreApplication>
#include <QFile>
#include <QJsonArray>
#include <QJsonDocument>
#include <QJsonObject>

#include <cstring>
#include <iostream>

#include "formatters/patternformatter.h"
#include "formatters/prettyformatter.h"

#include <condition_variable>
#include <memory>
#include <mutex>
#include <thread>
#include <vector>
#include "trace.h"

using namespace QtLogger;
using vtrace::fromUnits;
using vtrace::units;

static QtMsgType typeOf(const QString &s)
{
    if (s == "debug") return QtDebugMsg;
    if (s == "info") return QtInfoMsg;
    if (s == "warning") return QtWarningMsg;
    if (s == "critical") return QtCriticalMsg;
    return QtFatalMsg;
}

// "pretty" mode: every line of the input is one run {"maxw":n,"nthreads":k,"msgs":[{type,cat,text,thr}]}; the messages are
// created on k threads that are all alive at the same time (so that their ids differ), then formatted in order by
// ONE PrettyFormatter(false, maxw)
static int prettyMode(const char *path)
{
    QFile in(QString::fromLocal8Bit(path));
    if (!in.open(QIODevice::ReadOnly))
        return 2;
    vtrace::Writer out;
    while (!in.atEnd()) {
        const QByteArray line = in.readLine();
        if (line.trimmed().isEmpty())
            continue;
        const QJsonObject run = QJsonDocument::fromJson(line).object();
        const QJsonArray msgs = run["msgs"].toArray();
        const int k = run["nthreads"].toInt(1);
        std::vector<std::unique_ptr<LogMessage>> made(size_t(msgs.size()));
        std::vector<QByteArray> cats(size_t(msgs.size()));
        for (int i = 0; i < msgs.size(); ++i)
            cats[size_t(i)] = fromUnits(msgs.at(i).toObject()["cat"].toArray()).toUtf8();
        std::mutex mx;
        std::condition_variable cv;
        int ready = 0;
        std::vector<std::thread> threads;
        for (int t = 0; t < k; ++t) {
            threads.emplace_back([&, t] {
                for (int i = 0; i < msgs.size(); ++i) {
                    const QJsonObject m = msgs.at(i).toObject();
                    if (m["thr"].toInt() != t)
                        continue;
                    QMessageLogContext ctx("f.cpp", 1, "void f()", cats[size_t(i)].constData());
                    made[size_t(i)].reset(new LogMessage(typeOf(m["type"].toString()), ctx, fromUnits(m["text"].toArray())));
                }
                std::unique_lock<std::mutex> lk(mx);
                ++ready;
                cv.notify_all();
                cv.wait(lk, [&] { return ready >= k; });          // all threads alive together
            });
        }
        for (auto &t : threads)
            t.join();
        PrettyFormatter f(false, run["maxw"].toInt());
        QJsonObject r;
        r["e"] = "Reset";
        r["maxw"] = run["maxw"];
        out.put(r);
        for (int i = 0; i < msgs.size(); ++i) {
            if (!made[size_t(i)])
                continue;
            const LogMessage &m = *made[size_t(i)];
            QJsonObject o;
            o["e"] = "Line";
            o["i"] = i;
            o["line"] = units(f.format(m));
            o["tid"] = QString::number(m.threadId());
            o["ts"] = units(m.time().toString(QStringLiteral("dd.MM.yyyy hh:mm:ss")));
            out.put(o);
        }
    }
    out.flush();
    return 0;
}

int main(int argc, char **argv)
{
    setenv("TZ", "UTC", 1);
    QCoreApplication app(argc, argv);
    if (argc < 2)
        return 2;
    if (argc >= 3 && QByteArray(argv[1]) == "pretty")
        return prettyMode(argv[2]);
    QFile in(QString::fromLocal8Bit(argv[1]));
    if (!in.open(QIODevice::ReadOnly))
        return 2;
    vtrace::Writer out;
    while (!in.atEnd()) {
        const QByteArray line = in.readLine();
        if (line.trimmed().isEmpty())
            continue;
        const QJsonObject c = QJsonDocument::fromJson(line).object();
        const QByteArray file = fromUnits(c["file"].toArray()).toUtf8();
        const QByteArray func = fromUnits(c["func"].toArray()).toLatin1();
        const QByteArray cat = fromUnits(c["cat"].toArray()).toUtf8();
        PatternFormatter f(fromUnits(c["pattern"].toArray()));
        // Every other case, the formatter object has a history: it formatted another message before, whose context
        // strings lived at the very same addresses (a caller that reuses its buffers, heap blocks handed out again)
        // and whose type, text and attributes were different - none of that may show in the output for this message.
        const bool history = c["id"].toInt() % 2 == 1;
        QByteArray fileBuf(file.size() + 32, '\0'), funcBuf(func.size() + 32, '\0'), catBuf(cat.size() + 32, '\0');
        auto put = [](QByteArray &buf, const QByteArray &v) { memcpy(buf.data(), v.constData(), size_t(v.size()) + 1); };
        if (history) {
            put(fileBuf, QByteArray("earlier/dir/other_file.cpp"));
            put(funcBuf, QByteArray("int other::function(char)"));
            put(catBuf, QByteArray("other.category"));
            const QtMsgType realType = typeOf(c["type"].toString());
            QMessageLogContext dctx(fileBuf.constData(), 4242, funcBuf.constData(), catBuf.constData());
            LogMessage decoy(realType == QtWarningMsg ? QtInfoMsg : QtWarningMsg, dctx, QStringLiteral("an earlier message %{x}"));
            decoy.setAttribute(QStringLiteral("earlier_only"), 7);
            (void)f.format(decoy);
        }
        put(fileBuf, file);
        put(funcBuf, func);
        put(catBuf, cat);
        QMessageLogContext ctx(history ? fileBuf.constData() : file.constData(), c["line"].toInt(),
                               history ? funcBuf.constData() : func.constData(), history ? catBuf.constData() : cat.constData());
        LogMessage msg(typeOf(c["type"].toString()), ctx, fromUnits(c["text"].toArray()));
        for (const auto &a : c["attrs"].toArray()) {
            const QJsonObject o = a.toObject();
            if (o["t"].toString() == "i")
                msg.setAttribute(fromUnits(o["k"].toArray()), o["i"].toInt());
            else if (o["t"].toString() == "sn")
                msg.setAttribute(fromUnits(o["k"].toArray()), QString());
            else if (o["t"].toString() == "z")
                msg.setAttribute(fromUnits(o["k"].toArray()), QVariant());
            else
                msg.setAttribute(fromUnits(o["k"].toArray()), fromUnits(o["v"].toArray()));
        }
        QJsonObject r;
        r["e"] = "Case";
        r["id"] = c["id"];
        // what a sink behind this formatter gets: the formatter as a handler of a pipeline, then the message's
        // formatted text (a result the message takes for "not formatted" would show the raw message instead)
        f.process(msg);
        r["out"] = units(msg.formattedMessage());
        r["threadid"] = units(QString::number(msg.threadId()));
        r["qthreadptr"] = units(QStringLiteral("0x") + QString::number(msg.qthreadptr(), 16));
        QJsonObject times;
        for (const auto &t : c["timefmts"].toArray()) {
            const QString fmt = t.toString();
            times[fmt] = units(fmt.isEmpty() ? msg.time().toString(Qt::ISODate) : msg.time().toString(fmt));
        }
        r["times"] = times;
        out.put(r);
    }
    out.flush();
    return 0;
}
