// Conformance driver for spec/QtlPattern.tla (property C12).
//
// Input: one JSON case per line: the pattern text (as UTF-16 code units), the message (type, text, category,
// file, line, function) and its custom attributes.  The REAL PatternFormatter formats the message; the output
// goes back as code units together with the values only the library / Qt know (thread id, QThread pointer,
// the message time rendered with the formats the case asks for).
#include <QCoreApplication>
#include <QFile>
#include <QJsonArray>
#include <QJsonDocument>
#include <QJsonObject>

#include <iostream>

#include "formatters/patternformatter.h"
#include "trace.h"

using namespace QtLogger;
using vtrace::fromUnits;
using vtrace::units;

static QtMsgType typeOf(const QString &s)
{
    if (s == "debug") return QtDebugMsg;
    if (s == "info") return QtInfoMsg;
    if (s == "warning") return QtWarningMsg;
    if (s == "critical") return QtCriticalMsg;
    return QtFatalMsg;
}

int main(int argc, char **argv)
{
    setenv("TZ", "UTC", 1);
    QCoreApplication app(argc, argv);
    if (argc < 2)
        return 2;
    QFile in(QString::fromLocal8Bit(argv[1]));
    if (!in.open(QIODevice::ReadOnly))
        return 2;
    vtrace::Writer out;
    while (!in.atEnd()) {
        const QByteArray line = in.readLine();
        if (line.trimmed().isEmpty())
            continue;
        const QJsonObject c = QJsonDocument::fromJson(line).object();
        const QByteArray file = fromUnits(c["file"].toArray()).toUtf8();
        const QByteArray func = fromUnits(c["func"].toArray()).toLatin1();
        const QByteArray cat = fromUnits(c["cat"].toArray()).toUtf8();
        QMessageLogContext ctx(file.constData(), c["line"].toInt(), func.constData(), cat.constData());
        LogMessage msg(typeOf(c["type"].toString()), ctx, fromUnits(c["text"].toArray()));
        for (const auto &a : c["attrs"].toArray()) {
            const QJsonObject o = a.toObject();
            if (o["t"].toString() == "i")
                msg.setAttribute(fromUnits(o["k"].toArray()), o["i"].toInt());
            else if (o["t"].toString() == "sn")
                msg.setAttribute(fromUnits(o["k"].toArray()), QString());
            else if (o["t"].toString() == "z")
                msg.setAttribute(fromUnits(o["k"].toArray()), QVariant());
            else
                msg.setAttribute(fromUnits(o["k"].toArray()), fromUnits(o["v"].toArray()));
        }
        PatternFormatter f(fromUnits(c["pattern"].toArray()));
        QJsonObject r;
        r["e"] = "Case";
        r["id"] = c["id"];
        r["out"] = units(f.format(msg));
        r["threadid"] = units(QString::number(msg.threadId()));
        r["qthreadptr"] = units(QStringLiteral("0x") + QString::number(msg.qthreadptr(), 16));
        QJsonObject times;
        for (const auto &t : c["timefmts"].toArray()) {
            const QString fmt = t.toString();
            times[fmt] = units(fmt.isEmpty() ? msg.time().toString(Qt::ISODate) : msg.time().toString(fmt));
        }
        r["times"] = times;
        out.put(r);
    }
    out.flush();
    return 0;
}
