// Conformance driver for spec/QtlSorted.tla (property C17).
//
// Reads call sequences (one per line, one character per call) and performs them on a real
// QtLogger::SortedPipeline built from real handler classes.  After every call the handler list as
// exposed by Pipeline::handlers() is logged as [class, identity]; at the end of a sequence one
// message is processed and the order in which the handlers actually ran is logged.
//
//   a f F s p   appendAttrHandler / appendFilter / setFormatter / appendSink / appendPipeline
//   1 2 3 4 5   clearAttrHandlers / clearFilters / clearFormatters / clearSinks / clearPipelines
//   v w x y z   clear(HandlerType::AttrHandler ... Pipeline)
//   X           clear()
//   n m o q r   the five typed calls with a null pointer
//   A B G S P   the five typed calls with a handler object that was passed before (the first one of its class
//               created in this sequence; a new one if there is none yet)
#include <QCoreApplication>
#include <QFile>
#include <QHash>
#include <QTextStream>

#include <iostream>
#include <string>

#include "attrhandlers/functionattrhandler.h"
#include "filters/functionfilter.h"
#include "formatters/functionformatter.h"
#include "functionhandler.h"
#include "sortedpipeline.h"
#include "trace.h"

using namespace QtLogger;

namespace {

QList<int> g_order;

class RecSink : public Sink
{
public:
    explicit RecSink(int id) : m_id(id) { }
    void send(const LogMessage &) override { g_order.append(m_id); }

private:
    int m_id;
};

const char *className(Handler::HandlerType t)
{
    switch (t) {
    case Handler::HandlerType::AttrHandler: return "attr";
    case Handler::HandlerType::Filter: return "filter";
    case Handler::HandlerType::Formatter: return "formatter";
    case Handler::HandlerType::Sink: return "sink";
    case Handler::HandlerType::Pipeline: return "pipeline";
    case Handler::HandlerType::Handler: return "handler";
    }
    return "?";
}

} // namespace

static int g_sequences = 0;

int main(int argc, char **argv)
{
    if (argc < 2) {
        std::cerr << "usage: drv_sorted <sequences-file>\n";
        return 2;
    }
    QFile in(QString::fromLocal8Bit(argv[1]));
    if (!in.open(QIODevice::ReadOnly)) {
        std::cerr << "cannot open " << argv[1] << "\n";
        return 2;
    }
    vtrace::Writer out;

    while (!in.atEnd()) {
        const QByteArray line = in.readLine().trimmed();
        SortedPipeline pl;
        QHash<const Handler *, int> ids;
        int next = 1;
        AttrHandlerPtr firstAttr;
        FilterPtr firstFilter;
        FormatterPtr firstFormatter;
        SinkPtr firstSink;
        PipelinePtr firstPipeline;
        {
            QJsonObject o;
            o["e"] = "Reset";
            o["seq"] = QString::fromLatin1(line);
            out.put(o);
        }
        // every other sequence, the caller keeps the list it was given by handlers() until it asks again (a view, an
        // inspector): the pipeline's list is then implicitly shared while the next call modifies it
        const bool holdCopies = (++g_sequences % 2) == 0;
        QList<HandlerPtr> held;
        auto snapshot = [&]() {
            QJsonArray a;
            if (holdCopies)
                held = static_cast<const SortedPipeline &>(pl).handlers();
            for (const auto &h : static_cast<const SortedPipeline &>(pl).handlers()) {
                QJsonObject e;
                e["c"] = className(h->type());
                e["i"] = ids.value(h.data(), 0);
                a.append(e);
            }
            return a;
        };
        for (char ch0 : line) {
            char ch = ch0;
            QJsonObject o;
            o["e"] = "Call";
            // re-use of an existing object: falls back to the creating call when there is none yet
            if (ch == 'A' && !firstAttr) ch = 'a';
            if (ch == 'B' && !firstFilter) ch = 'f';
            if (ch == 'G' && !firstFormatter) ch = 'F';
            if (ch == 'S' && !firstSink) ch = 's';
            if (ch == 'P' && !firstPipeline) ch = 'p';
            switch (ch) {
            case 'A': pl.appendAttrHandler(firstAttr); o["op"] = "ReAppendH"; o["c"] = "attr"; o["i"] = ids.value(firstAttr.data()); break;
            case 'B': pl.appendFilter(firstFilter); o["op"] = "ReAppendH"; o["c"] = "filter"; o["i"] = ids.value(firstFilter.data()); break;
            case 'G': pl.setFormatter(firstFormatter); o["op"] = "ReSetFormatter"; o["c"] = "formatter"; o["i"] = ids.value(firstFormatter.data()); break;
            case 'S': pl.appendSink(firstSink); o["op"] = "ReAppendH"; o["c"] = "sink"; o["i"] = ids.value(firstSink.data()); break;
            case 'P': pl.appendPipeline(firstPipeline); o["op"] = "ReAppendH"; o["c"] = "pipeline"; o["i"] = ids.value(firstPipeline.data()); break;
            case 'a': {
                const int id = next++;
                auto h = FunctionAttrHandlerPtr::create([id](const LogMessage &) {
                    g_order.append(id);
                    return QVariantHash();
                });
                ids.insert(h.data(), id);
                if (!firstAttr) firstAttr = h;
                pl.appendAttrHandler(h);
                o["op"] = "AppendH"; o["c"] = "attr";
                break;
            }
            case 'f': {
                const int id = next++;
                auto h = FunctionFilterPtr::create([id](const LogMessage &) {
                    g_order.append(id);
                    return true;
                });
                ids.insert(h.data(), id);
                if (!firstFilter) firstFilter = h;
                pl.appendFilter(h);
                o["op"] = "AppendH"; o["c"] = "filter";
                break;
            }
            case 'F': {
                const int id = next++;
                auto h = FunctionFormatterPtr::create([id](const LogMessage &) {
                    g_order.append(id);
                    return QStringLiteral("x");
                });
                ids.insert(h.data(), id);
                if (!firstFormatter) firstFormatter = h;
                pl.setFormatter(h);
                o["op"] = "SetFormatter"; o["c"] = "formatter";
                break;
            }
            case 's': {
                const int id = next++;
                auto h = QSharedPointer<RecSink>::create(id);
                ids.insert(h.data(), id);
                if (!firstSink) firstSink = h;
                pl.appendSink(h);
                o["op"] = "AppendH"; o["c"] = "sink";
                break;
            }
            case 'p': {
                const int id = next++;
                auto h = PipelinePtr::create();
                h->append(FunctionHandlerPtr::create([id](LogMessage &) {
                    g_order.append(id);
                    return false; // a nested pipeline never stops its parent
                }));
                ids.insert(h.data(), id);
                if (!firstPipeline) firstPipeline = h;
                pl.appendPipeline(h);
                o["op"] = "AppendH"; o["c"] = "pipeline";
                break;
            }
            case '1': pl.clearAttrHandlers(); o["op"] = "Clear"; o["c"] = "attr"; break;
            case '2': pl.clearFilters(); o["op"] = "Clear"; o["c"] = "filter"; break;
            case '3': pl.clearFormatters(); o["op"] = "Clear"; o["c"] = "formatter"; break;
            case '4': pl.clearSinks(); o["op"] = "Clear"; o["c"] = "sink"; break;
            case '5': pl.clearPipelines(); o["op"] = "Clear"; o["c"] = "pipeline"; break;
            case 'v': pl.clear(Handler::HandlerType::AttrHandler); o["op"] = "Clear"; o["c"] = "attr"; break;
            case 'w': pl.clear(Handler::HandlerType::Filter); o["op"] = "Clear"; o["c"] = "filter"; break;
            case 'x': pl.clear(Handler::HandlerType::Formatter); o["op"] = "Clear"; o["c"] = "formatter"; break;
            case 'y': pl.clear(Handler::HandlerType::Sink); o["op"] = "Clear"; o["c"] = "sink"; break;
            case 'z': pl.clear(Handler::HandlerType::Pipeline); o["op"] = "Clear"; o["c"] = "pipeline"; break;
            case 'X': pl.clear(); o["op"] = "ClearAll"; o["c"] = ""; break;
            case 'n': pl.appendAttrHandler(AttrHandlerPtr()); o["op"] = "AppendNull"; o["c"] = "attr"; break;
            case 'm': pl.appendFilter(FilterPtr()); o["op"] = "AppendNull"; o["c"] = "filter"; break;
            case 'o': pl.setFormatter(FormatterPtr()); o["op"] = "AppendNull"; o["c"] = "formatter"; break;
            case 'q': pl.appendSink(SinkPtr()); o["op"] = "AppendNull"; o["c"] = "sink"; break;
            case 'r': pl.appendPipeline(PipelinePtr()); o["op"] = "AppendNull"; o["c"] = "pipeline"; break;
            default:
                std::cerr << "bad op '" << ch << "'\n";
                return 2;
            }
            o["hs"] = snapshot();
            out.put(o);
        }
        // run one message through it: which handlers ran, in which order
        g_order.clear();
        QMessageLogContext ctx("file.cpp", 1, "func", "cat");
        LogMessage lmsg(QtDebugMsg, ctx, QStringLiteral("m"));
        pl.process(lmsg);
        QJsonObject o;
        o["e"] = "Exec";
        QJsonArray ord;
        for (int id : g_order)
            ord.append(id);
        o["order"] = ord;
        out.put(o);
    }
    out.flush();
    return 0;
}
