// In-binary interposition of the libc calls Qt makes on the log directory, plus a virtual wall
// clock.  The definitions in vfs.cpp live in the harness executable, so they win symbol resolution
// for libQt5Core's PLT calls (open64, write, close, rename, renameat2, link, unlink, gettimeofday,
// clock_gettime).  Every call on a path below the tracked root is one labelled step of
// spec/QtlRotation.tla:  it is reported through the event callback, may be made to fail (fault
// injection) and the process may be killed right before it (crash point = system-call boundary).
// File modification times follow the virtual clock: after every tracked write / create the file's
// mtime is set to the virtual time with futimens(), so QFileInfo::lastModified() and a later
// process (restart after a crash) see virtual times without any further help.
#pragma once

#include <functional>
#include <string>

namespace vfs {

struct Event
{
    const char *call;      // open | write | close | rename | link | unlink
    std::string path;      // tracked path (relative to the root)
    std::string path2;     // rename / link target
    const char *mode = ""; // open: append | trunc | rd | other
    bool created = false;  // open: the file did not exist before
    long long n = 0;       // write: bytes requested
    bool ok = true;
    int err = 0;
};

using Callback = std::function<void(const Event &)>;

void setRoot(const std::string &dir);           // absolute path; calls on paths below it are tracked
void setCallback(Callback cb);
void setNowMs(long long epochMs);               // virtual wall clock (gettimeofday / CLOCK_REALTIME)
long long nowMs();
bool clockActive();

// crash: _exit(77) right before the k-th tracked call counted from now (k >= 1); 0 disarms.
// `announce` is called (with the label of the call that will not happen) before exiting.
void armCrash(long k, std::function<void(long, const Event &)> announce);
long callsSinceArm();                            // tracked calls seen since the last arm*/reset
void resetCounter();

// faults (all disarmed by clearFaults):
//  failRename     : every rename/renameat2/link fails with `err`; creating (O_TRUNC) the file the failed
//                   rename was aimed at fails too (QFile::rename's copy fallback cannot help)
//  failCreateGz   : open(O_CREAT|O_TRUNC) of a "*.gz" path fails
//  failOpenRead   : open(O_RDONLY) of a tracked path fails
//  failUnlinkNth  : the n-th unlink (1-based, counted from now) fails; 0 = none
void setFaults(bool failRename, bool failCreateGz, bool failOpenRead, int failUnlinkNth, int err);
void clearFaults();

// the harness's own file accesses (listing the directory, planting files) are not steps of the sink
void setQuiet(bool on);

// real (uninterposed) helpers for the harness itself
long realWrite(int fd, const void *buf, unsigned long n);
bool interposersHit();                           // true once a tracked call went through us

} // namespace vfs
