// See vfs.h.
#ifndef _GNU_SOURCE
#  define _GNU_SOURCE
#endif
#include "vfs.h"

#include <dlfcn.h>
#include <errno.h>
#include <fcntl.h>
#include <stdarg.h>
#include <stdio.h>
#include <string.h>
#include <sys/stat.h>
#include <sys/time.h>
#include <time.h>
#include <unistd.h>

#include <map>
#include <mutex>

namespace {

std::recursive_mutex g_mx;
std::string g_root;                 // with trailing '/'
vfs::Callback g_cb;
bool g_inCb = false;
thread_local bool t_quiet = false;   // the harness's own file accesses on this thread are not steps of the sink
long long g_nowMs = 0;
bool g_clock = false;
std::map<int, std::string> g_fds;   // tracked descriptors -> relative path
long g_calls = 0;
long g_crashAt = 0;
std::function<void(long, const vfs::Event &)> g_announce;
bool g_failRename = false, g_failCreateGz = false, g_failOpenRead = false;
int g_failUnlinkNth = 0, g_unlinks = 0, g_failErr = EACCES;
bool g_hit = false;
std::string g_renameTarget;          // target of the last rename that was made to fail

template <typename F> F real(const char *name)
{
    return reinterpret_cast<F>(dlsym(RTLD_NEXT, name));
}

using open_t = int (*)(const char *, int, ...);
using write_t = ssize_t (*)(int, const void *, size_t);
using close_t = int (*)(int);
using rename_t = int (*)(const char *, const char *);
using renameat2_t = int (*)(int, const char *, int, const char *, unsigned);
using link_t = int (*)(const char *, const char *);
using linkat_t = int (*)(int, const char *, int, const char *, int);
using unlink_t = int (*)(const char *);
using gettimeofday_t = int (*)(struct timeval *, void *);
using clock_gettime_t = int (*)(clockid_t, struct timespec *);

bool tracked(const char *path, std::string *rel)
{
    if (g_root.empty() || !path)
        return false;
    if (strncmp(path, g_root.c_str(), g_root.size()) != 0)
        return false;
    *rel = path + g_root.size();
    return true;
}

void stamp(int fd)
{
    if (!g_clock)
        return;
    struct timespec ts[2];
    ts[0].tv_sec = ts[1].tv_sec = g_nowMs / 1000;
    ts[0].tv_nsec = ts[1].tv_nsec = (g_nowMs % 1000) * 1000000L;
    futimens(fd, ts);
}

// bookkeeping before a tracked call is executed: crash point, event counter
void before(const vfs::Event &ev)
{
    g_hit = true;
    ++g_calls;
    if (g_crashAt > 0 && g_calls == g_crashAt) {
        if (g_announce)
            g_announce(g_calls, ev);
        _exit(77);
    }
}

void report(const vfs::Event &ev)
{
    if (g_cb && !g_inCb) {
        g_inCb = true;
        g_cb(ev);
        g_inCb = false;
    }
}

int doOpen(const char *path, int flags, mode_t mode)
{
    static open_t r = real<open_t>("open64");
    std::string rel;
    std::lock_guard<std::recursive_mutex> lk(g_mx);
    if (g_inCb || t_quiet || (flags & O_DIRECTORY) || !tracked(path, &rel))
        return r(path, flags, mode);
    vfs::Event ev;
    ev.call = "open";
    ev.path = rel;
    const int acc = flags & O_ACCMODE;
    ev.mode = (flags & O_APPEND) ? "append" : (flags & O_TRUNC) ? "trunc" : (acc == O_RDONLY) ? "rd" : "other";
    struct stat st;
    const bool existed = ::stat(path, &st) == 0;
    ev.created = !existed && (flags & O_CREAT);
    before(ev);
    const bool isGz = rel.size() > 3 && rel.compare(rel.size() - 3, 3, ".gz") == 0;
    int fd = -1;
    if ((flags & O_TRUNC) && ((isGz && g_failCreateGz) || (g_failRename && rel == g_renameTarget))) {
        errno = g_failErr;
    } else if (acc == O_RDONLY && g_failOpenRead) {
        errno = g_failErr;
    } else {
        fd = r(path, flags, mode);
    }
    ev.ok = fd >= 0;
    ev.err = ev.ok ? 0 : errno;
    if (fd >= 0) {
        g_fds[fd] = rel;
        if (ev.created || (flags & O_TRUNC))
            stamp(fd);
    }
    const int saved = errno;
    report(ev);
    errno = saved;
    return fd;
}

} // namespace

extern "C" {

int open64(const char *path, int flags, ...)
{
    mode_t mode = 0;
    if (flags & (O_CREAT | O_TMPFILE)) {
        va_list ap;
        va_start(ap, flags);
        mode = va_arg(ap, mode_t);
        va_end(ap);
    }
    return doOpen(path, flags, mode);
}

int open(const char *path, int flags, ...)
{
    mode_t mode = 0;
    if (flags & (O_CREAT | O_TMPFILE)) {
        va_list ap;
        va_start(ap, flags);
        mode = va_arg(ap, mode_t);
        va_end(ap);
    }
    return doOpen(path, flags, mode);
}

ssize_t write(int fd, const void *buf, size_t n)
{
    static write_t r = real<write_t>("write");
    std::lock_guard<std::recursive_mutex> lk(g_mx);
    auto it = (g_inCb || t_quiet) ? g_fds.end() : g_fds.find(fd);
    if (it == g_fds.end())
        return r(fd, buf, n);
    vfs::Event ev;
    ev.call = "write";
    ev.path = it->second;
    ev.n = (long long)n;
    before(ev);
    ssize_t w = r(fd, buf, n);
    ev.ok = w == (ssize_t)n;
    ev.err = w < 0 ? errno : 0;
    if (w > 0)
        stamp(fd);
    const int saved = errno;
    report(ev);
    errno = saved;
    return w;
}

int close(int fd)
{
    static close_t r = real<close_t>("close");
    std::lock_guard<std::recursive_mutex> lk(g_mx);
    auto it = (g_inCb || t_quiet) ? g_fds.end() : g_fds.find(fd);
    if (it == g_fds.end())
        return r(fd);
    vfs::Event ev;
    ev.call = "close";
    ev.path = it->second;
    before(ev);
    g_fds.erase(it);
    int rc = r(fd);
    ev.ok = rc == 0;
    ev.err = rc ? errno : 0;
    report(ev);
    return rc;
}

static int doRename(const char *from, const char *to, int which, int fd1, int fd2, unsigned flags)
{
    static rename_t r1 = real<rename_t>("rename");
    static renameat2_t r2 = real<renameat2_t>("renameat2");
    std::string a, b;
    std::lock_guard<std::recursive_mutex> lk(g_mx);
    const bool t = !g_inCb && !t_quiet && tracked(from, &a) && tracked(to, &b);
    if (!t)
        return which == 1 ? r1(from, to) : r2(fd1, from, fd2, to, flags);
    vfs::Event ev;
    ev.call = "rename";
    ev.path = a;
    ev.path2 = b;
    before(ev);
    int rc;
    if (g_failRename) {
        rc = -1;
        errno = g_failErr;
        g_renameTarget = b;
    } else {
        rc = which == 1 ? r1(from, to) : r2(fd1, from, fd2, to, flags);
    }
    ev.ok = rc == 0;
    ev.err = rc ? errno : 0;
    const int saved = errno;
    report(ev);
    errno = saved;
    return rc;
}

int rename(const char *from, const char *to)
{
    return doRename(from, to, 1, 0, 0, 0);
}

int renameat2(int fd1, const char *from, int fd2, const char *to, unsigned flags)
{
    return doRename(from, to, 2, fd1, fd2, flags);
}

int link(const char *from, const char *to)
{
    static link_t r = real<link_t>("link");
    std::string a, b;
    std::lock_guard<std::recursive_mutex> lk(g_mx);
    if (g_inCb || t_quiet || !tracked(from, &a) || !tracked(to, &b))
        return r(from, to);
    vfs::Event ev;
    ev.call = "link";
    ev.path = a;
    ev.path2 = b;
    before(ev);
    int rc;
    if (g_failRename) {
        rc = -1;
        errno = g_failErr;
    } else {
        rc = r(from, to);
    }
    ev.ok = rc == 0;
    ev.err = rc ? errno : 0;
    const int saved = errno;
    report(ev);
    errno = saved;
    return rc;
}

int unlink(const char *path)
{
    static unlink_t r = real<unlink_t>("unlink");
    std::string a;
    std::lock_guard<std::recursive_mutex> lk(g_mx);
    if (g_inCb || t_quiet || !tracked(path, &a))
        return r(path);
    vfs::Event ev;
    ev.call = "unlink";
    ev.path = a;
    before(ev);
    int rc;
    ++g_unlinks;
    if (g_failUnlinkNth > 0 && g_unlinks == g_failUnlinkNth) {
        rc = -1;
        errno = g_failErr;
    } else {
        rc = r(path);
    }
    ev.ok = rc == 0;
    ev.err = rc ? errno : 0;
    const int saved = errno;
    report(ev);
    errno = saved;
    return rc;
}

int gettimeofday(struct timeval *tv, void *tz)
{
    static gettimeofday_t r = real<gettimeofday_t>("gettimeofday");
    if (!g_clock)
        return r(tv, tz);
    if (tv) {
        tv->tv_sec = g_nowMs / 1000;
        tv->tv_usec = (g_nowMs % 1000) * 1000;
    }
    return 0;
}

int clock_gettime(clockid_t id, struct timespec *ts)
{
    static clock_gettime_t r = real<clock_gettime_t>("clock_gettime");
    if (!g_clock || (id != CLOCK_REALTIME && id != CLOCK_REALTIME_COARSE))
        return r(id, ts);
    if (ts) {
        ts->tv_sec = g_nowMs / 1000;
        ts->tv_nsec = (g_nowMs % 1000) * 1000000L;
    }
    return 0;
}

} // extern "C"

namespace vfs {

void setRoot(const std::string &dir)
{
    std::lock_guard<std::recursive_mutex> lk(g_mx);
    g_root = dir;
    if (!g_root.empty() && g_root.back() != '/')
        g_root += '/';
    g_fds.clear();
}

void setCallback(Callback cb)
{
    std::lock_guard<std::recursive_mutex> lk(g_mx);
    g_cb = std::move(cb);
}

void setNowMs(long long ms)
{
    g_nowMs = ms;
    g_clock = true;
}

long long nowMs()
{
    return g_nowMs;
}

bool clockActive()
{
    return g_clock;
}

void armCrash(long k, std::function<void(long, const Event &)> announce)
{
    std::lock_guard<std::recursive_mutex> lk(g_mx);
    g_calls = 0;
    g_crashAt = k;
    g_announce = std::move(announce);
}

long callsSinceArm()
{
    return g_calls;
}

void resetCounter()
{
    std::lock_guard<std::recursive_mutex> lk(g_mx);
    g_calls = 0;
}

void setFaults(bool failRename, bool failCreateGz, bool failOpenRead, int failUnlinkNth, int err)
{
    std::lock_guard<std::recursive_mutex> lk(g_mx);
    g_failRename = failRename;
    g_failCreateGz = failCreateGz;
    g_failOpenRead = failOpenRead;
    g_failUnlinkNth = failUnlinkNth;
    g_unlinks = 0;
    g_renameTarget.clear();
    g_failErr = err ? err : EACCES;
}

void clearFaults()
{
    setFaults(false, false, false, 0, 0);
}

void setQuiet(bool on)
{
    t_quiet = on;
}

long realWrite(int fd, const void *buf, unsigned long n)
{
    static write_t r = real<write_t>("write");
    return r(fd, buf, n);
}

bool interposersHit()
{
    return g_hit;
}

} // namespace vfs
