// Shared by drv_threads.cpp and drv_lifecycle.cpp: the ndjson event stream (one global order), thread tags,
// seeded jitter, the QTLOGGER_VERIF point callback and the probe handlers placed inside the pipeline.
#pragma once

#include <QCoreApplication>
#include <QDateTime>
#include <QJsonArray>
#include <QJsonDocument>
#include <QJsonObject>
#include <QThread>

#include <atomic>
#include <chrono>
#include <condition_variable>
#include <csignal>
#include <cstring>
#include <functional>
#include <mutex>
#include <random>
#include <string>
#include <thread>
#include <vector>

#include <unistd.h>

#include "functionhandler.h"
#include "logmessage.h"
#include "verifpoint.h"

using namespace QtLogger;

namespace thr {


inline std::mutex g_mx;
inline thread_local std::string t_tag;
inline thread_local std::mt19937 t_rng;
inline thread_local bool t_rngInit = false;
inline std::atomic<int> g_jitter { 0 };          // percent of points at which a thread dawdles
inline std::atomic<unsigned> g_seed { 1 };
inline std::chrono::steady_clock::time_point g_t0;
inline std::chrono::system_clock::time_point g_wall0;

inline const char *tag()
{
    return t_tag.empty() ? "W" : t_tag.c_str();
}

inline void emitLine(const QJsonObject &o)
{
    QByteArray b = QJsonDocument(o).toJson(QJsonDocument::Compact);
    b.append('\n');
    std::lock_guard<std::mutex> lk(g_mx);
    ssize_t r = ::write(1, b.constData(), size_t(b.size()));
    (void)r;
}

inline void jitter()
{
    const int pct = g_jitter.load(std::memory_order_relaxed);
    if (pct <= 0)
        return;
    if (!t_rngInit) {
        t_rng.seed(g_seed.load() * 2654435761u + unsigned(std::hash<std::string>()(tag())));
        t_rngInit = true;
    }
    const unsigned r = t_rng();
    if (int(r % 100) < pct) {
        if ((r >> 8) % 4 == 0)
            std::this_thread::yield();
        else
            std::this_thread::sleep_for(std::chrono::microseconds((r >> 10) % 400));
    }
}

// Schedule forcing (best effort): `gates` is a sequence of (thread tag, point) pairs taken from a TLC behaviour. A
// thread that arrives at a point listed in the remaining sequence waits until its entry is at the head (or a short
// timeout expires: the real code could not follow - the entry is dropped and the run goes on). Whatever schedule
// results is recorded and validated like any other; forcing only steers which interleavings are seen.
struct Gates
{
    std::mutex mx;
    std::condition_variable cv;
    std::vector<std::pair<std::string, std::string>> seq;
    std::vector<char> done;
    size_t head = 0;
    int passed = 0, abandoned = 0;
    int timeoutMs = 400;

    void load(const std::vector<std::pair<std::string, std::string>> &s)
    {
        std::lock_guard<std::mutex> lk(mx);
        seq = s;
        done.assign(s.size(), 0);
        head = 0;
        passed = abandoned = 0;
    }
    // positions at which a thread holds no lock that the step it is about to take needs: it can be kept there
    // until the behaviour says it is its turn to acquire
    static bool holdPoint(const char *p)
    {
        static const char *pts[] = { "pm.enter", "oth.enter", "rs.enter", "mv.enter", "rs.wait.unlock", "wk.begin", "wk.processed",
                                     "wk.end" };
        for (const char *x : pts)
            if (!strcmp(x, p))
                return true;
        return false;
    }
    void arrive(const char *who, const char *point)
    {
        std::unique_lock<std::mutex> lk(mx);
        if (head >= seq.size())
            return;
        size_t mine = seq.size();
        for (size_t i = head; i < seq.size(); ++i) {
            if (!done[i] && seq[i].first == who && seq[i].second == point) {
                mine = i;
                break;
            }
        }
        if (mine == seq.size())
            return;
        // the entry is consumed by arriving
        done[mine] = 1;
        if (mine == head)
            ++passed;
        while (head < seq.size() && done[head])
            ++head;
        cv.notify_all();
        if (!holdPoint(point))
            return;
        // held here until everything that precedes this thread's next entry has happened
        size_t next = seq.size();
        for (size_t i = mine + 1; i < seq.size(); ++i) {
            if (!done[i] && seq[i].first == who) {
                next = i;
                break;
            }
        }
        if (next == seq.size())
            return;
        const auto deadline = std::chrono::steady_clock::now() + std::chrono::milliseconds(timeoutMs);
        while (head < next) {
            if (cv.wait_until(lk, deadline) == std::cv_status::timeout) {
                ++abandoned;
                break;
            }
        }
    }
};
inline Gates g_gates;

inline void pointCb(const char *point, const void *, long long a, long long b)
{
    g_gates.arrive(tag(), point);
    QJsonObject o;
    o["e"] = "Pt";
    o["t"] = tag();
    o["p"] = point;
    o["a"] = double(a);
    o["b"] = double(b);
    emitLine(o);
    jitter();
}

inline QJsonArray msgId(const QString &text)
{
    // "p3:7:payload" -> ["p3", 7]
    const auto parts = text.split(':');
    QJsonArray a;
    a.append(parts.value(0));
    a.append(parts.value(1).toInt());
    return a;
}

inline int relMs(const QDateTime &t)
{
    const auto w0 = std::chrono::duration_cast<std::chrono::milliseconds>(g_wall0.time_since_epoch()).count();
    return int(t.toMSecsSinceEpoch() - w0);
}

inline int nowRelMs()
{
    // same arithmetic as relMs(): truncate both instants to milliseconds first
    const auto w0 = std::chrono::duration_cast<std::chrono::milliseconds>(g_wall0.time_since_epoch()).count();
    const auto n = std::chrono::duration_cast<std::chrono::milliseconds>(std::chrono::system_clock::now().time_since_epoch()).count();
    return int(n - w0);
}

inline const char *typeName(QtMsgType t)
{
    switch (t) {
    case QtDebugMsg: return "debug";
    case QtInfoMsg: return "info";
    case QtWarningMsg: return "warning";
    case QtCriticalMsg: return "critical";
    case QtFatalMsg: return "fatal";
    }
    return "?";
}

inline QJsonObject fieldsOf(const LogMessage &m)
{
    QJsonObject f;
    f["type"] = typeName(m.type());
    f["text"] = m.message();
    f["file"] = QString::fromUtf8(m.file() ? m.file() : "");
    f["line"] = m.line();
    f["func"] = QString::fromUtf8(m.function() ? m.function() : "");
    f["cat"] = QString::fromUtf8(m.category() ? m.category() : "");
    f["tid"] = QString::number(m.threadId());
    // what a handler upstream of the hand-off put on the message travels with it: an attribute, the formatted text
    f["pre"] = m.attribute(QStringLiteral("pre")).toInt();
    f["fmt"] = m.isFormatted() ? m.formattedMessage() : QString();
    return f;
}

struct Gate
{
    std::mutex mx;
    std::condition_variable cv;
    bool open = true;
    void wait()
    {
        std::unique_lock<std::mutex> lk(mx);
        cv.wait(lk, [this] { return open; });
    }
    void set(bool o)
    {
        {
            std::lock_guard<std::mutex> lk(mx);
            open = o;
        }
        cv.notify_all();
    }
};

struct Probes
{
    Gate gate;
    int sinkDelayUs = 0;
    int stallMs = 0;                 // the first delivery takes this long (once)
    int relog = 0;                   // the sink itself logs this many messages (while it handles p1's first message)
    std::atomic<bool> stalled { false };

    HandlerPtr enter()
    {
        return FunctionHandlerPtr::create([](LogMessage &m) {
            QJsonObject o;
            o["e"] = "Enter";
            o["t"] = tag();
            o["m"] = msgId(m.message());
            emitLine(o);
            jitter();
            return true;
        });
    }
    HandlerPtr sink()
    {
        return FunctionHandlerPtr::create([this](LogMessage &m) {
            gate.wait();
            if (sinkDelayUs > 0)
                std::this_thread::sleep_for(std::chrono::microseconds(sinkDelayUs));
            if (stallMs > 0 && !stalled.exchange(true))
                std::this_thread::sleep_for(std::chrono::milliseconds(stallMs));
            QJsonObject o;
            o["e"] = "Deliver";
            o["t"] = tag();
            o["m"] = msgId(m.message());
            o["n"] = m.attribute("seq_number").toInt();
            o["hasn"] = m.hasAttribute("seq_number");
            o["f"] = fieldsOf(m);
            o["time"] = relMs(m.time());
            emitLine(o);
            jitter();
            if (relog > 0 && m.message().startsWith(QStringLiteral("p1:1:"))) {
                // a handler that logs: the nested calls are made from whatever thread runs the pipeline; they are
                // shown to the specification as the calls of a producer of their own ("pw")
                const std::string saved = t_tag;
                t_tag = "pw";
                const QString tid = QString::number(quint64(reinterpret_cast<quintptr>(QThread::currentThreadId())));
                for (int i = 1; i <= relog; ++i) {
                    const QString text = QStringLiteral("pw:%1:nested").arg(i);
                    QJsonObject f;
                    f["type"] = "info";
                    f["text"] = text;
                    f["file"] = "sink.cpp";
                    f["line"] = 900 + i;
                    f["func"] = "void sink()";
                    f["cat"] = "sink";
                    f["tid"] = tid;
                    f["pre"] = 0;
                    f["fmt"] = QString();
                    QJsonObject b;
                    b["e"] = "CallBegin";
                    b["t"] = "pw";
                    b["m"] = msgId(text);
                    b["f"] = f;
                    b["ms"] = nowRelMs();
                    emitLine(b);
                    QMessageLogger("sink.cpp", 900 + i, "void sink()", "sink").info("%s", text.toUtf8().constData());
                    QJsonObject e;
                    e["e"] = "CallEnd";
                    e["t"] = "pw";
                    e["m"] = msgId(text);
                    e["ms"] = nowRelMs();
                    emitLine(e);
                }
                t_tag = saved;
            }
            return true;
        });
    }
    // a real Sink whose flush() is visible: Logger::processMessage flushes every sink after a fatal message that was
    // processed synchronously, still inside the logger's critical section
    struct FlushProbe : public Sink
    {
        int delayUs = 0;
        void send(const LogMessage &) override { }
        bool flush() override
        {
            QJsonObject o;
            o["e"] = "Flush";
            o["t"] = tag();
            o["ph"] = "begin";
            emitLine(o);
            jitter();
            if (delayUs > 0)
                std::this_thread::sleep_for(std::chrono::microseconds(delayUs));
            o["ph"] = "end";
            emitLine(o);
            return true;
        }
    };
    HandlerPtr flushProbe()
    {
        auto fp = QSharedPointer<FlushProbe>::create();
        fp->delayUs = sinkDelayUs > 0 ? sinkDelayUs : 200;
        return fp;
    }
    HandlerPtr exit()
    {
        return FunctionHandlerPtr::create([](LogMessage &m) {
            QJsonObject o;
            o["e"] = "Exit";
            o["t"] = tag();
            o["m"] = msgId(m.message());
            emitLine(o);
            jitter();
            return true;
        });
    }
};

inline void crashHandler(int sig)
{
    char buf[96];
    int n = snprintf(buf, sizeof buf, "{\"e\":\"Crashed\",\"sig\":%d}\n", sig);
    ssize_t r = ::write(1, buf, size_t(n));
    (void)r;
    _exit(70);
}


} // namespace thr
