// ndjson trace writer shared by the conformance drivers.
#pragma once

#include <QByteArray>
#include <QJsonArray>
#include <QJsonDocument>
#include <QJsonObject>
#include <QString>

#include <cstdio>

namespace vtrace {

class Writer
{
public:
    explicit Writer(FILE *f = stdout) : m_f(f) { }
    void put(const QJsonObject &o)
    {
        const QByteArray b = QJsonDocument(o).toJson(QJsonDocument::Compact);
        fwrite(b.constData(), 1, size_t(b.size()), m_f);
        fputc('\n', m_f);
    }
    void flush() { fflush(m_f); }

private:
    FILE *m_f;
};

// QString -> array of UTF-16 code units (TLC has no character type; width/truncation rules are
// defined on QString length, i.e. on code units)
inline QJsonArray units(const QString &s)
{
    QJsonArray a;
    for (QChar c : s)
        a.append(int(c.unicode()));
    return a;
}

inline QString fromUnits(const QJsonArray &a)
{
    QString s;
    s.reserve(a.size());
    for (const auto &v : a)
        s.append(QChar(ushort(v.toInt())));
    return s;
}

} // namespace vtrace
