// Conformance driver for spec/QtlHttp.tla (HttpSink; beyond the listed properties; built only in the "net" flavour,
// with QTLOGGER_NETWORK).  A QTcpServer on the loopback interface plays the collector; a Logger sends every message
// through [probe, HttpSink].  "Send" events carry what the sink was given (the text it must post), "Req" events what
// the server received (method, target, content type, the configured extra headers, body).
//
//   drv_http <scenarios.ndjson>:  {"id":n, "path":"/api/1/store/?k=v", "ctype":""|"application/json; charset=utf-8",
//                                  "hdrs":[["X-Key","abc"],...], "format":bool, "msgs":[[units],...]}
#include <QCoreApplication>
#include <QElapsedTimer>
#include <QFile>
#include <QJsonArray>
#include <QJsonDocument>
#include <QJsonObject>
#include <QTcpServer>
#include <QTcpSocket>

#include "functionhandler.h"
#include "logger.h"
#include "sinks/httpsink.h"
#include "trace.h"

using namespace QtLogger;

namespace {

QJsonArray bytesOf(const QByteArray &b)
{
    QJsonArray a;
    for (unsigned char c : b)
        a.append(int(c));
    return a;
}

struct Conn
{
    QByteArray buf;
    bool done = false;
};

} // namespace

int main(int argc, char **argv)
{
    QCoreApplication app(argc, argv);
    if (argc < 2)
        return 2;
    QFile in(QString::fromLocal8Bit(argv[1]));
    if (!in.open(QIODevice::ReadOnly))
        return 2;
    vtrace::Writer out;

    QTcpServer server;
    if (!server.listen(QHostAddress::LocalHost, 0))
        return 3;
    int received = 0;
    QStringList wanted;      // names of the extra headers of the current scenario
    QObject::connect(&server, &QTcpServer::newConnection, [&] {
        while (QTcpSocket *s = server.nextPendingConnection()) {
            auto conn = new Conn;
            QObject::connect(s, &QTcpSocket::readyRead, [&, s, conn] {
                conn->buf += s->readAll();
                for (;;) {
                    const int hend = conn->buf.indexOf("\r\n\r\n");
                    if (hend < 0)
                        return;
                    const QList<QByteArray> lines = conn->buf.left(hend).split('\n');
                    int clen = 0;
                    QJsonObject hdrs;
                    QString ctype;
                    for (int i = 1; i < lines.size(); ++i) {
                        const QByteArray l = lines[i].trimmed();
                        const int c = l.indexOf(':');
                        if (c < 0)
                            continue;
                        const QByteArray name = l.left(c).trimmed(), value = l.mid(c + 1).trimmed();
                        if (name.toLower() == "content-length") clen = value.toInt();
                        if (name.toLower() == "content-type") ctype = QString::fromLatin1(value);
                        for (const QString &w : wanted)
                            if (name.toLower() == w.toLower().toLatin1())
                                hdrs[w] = QString::fromLatin1(value);
                    }
                    if (conn->buf.size() < hend + 4 + clen)
                        return;
                    const QList<QByteArray> req = lines[0].trimmed().split(' ');
                    QJsonObject r;
                    r["e"] = "Req";
                    r["method"] = QString::fromLatin1(req.value(0));
                    r["target"] = QString::fromLatin1(req.value(1));
                    r["ctype"] = ctype;
                    r["hdrs"] = hdrs;
                    r["body"] = bytesOf(conn->buf.mid(hend + 4, clen));
                    out.put(r);
                    ++received;
                    conn->buf.remove(0, hend + 4 + clen);
                    s->write("HTTP/1.1 200 OK\r\nContent-Length: 0\r\n\r\n");
                    s->flush();
                }
            });
            QObject::connect(s, &QTcpSocket::disconnected, [s, conn] { delete conn; s->deleteLater(); });
        }
    });

    while (!in.atEnd()) {
        const QByteArray line = in.readLine();
        if (line.trimmed().isEmpty())
            continue;
        const QJsonObject scn = QJsonDocument::fromJson(line).object();
        received = 0;
        wanted.clear();
        HttpSink::Headers headers;
        if (!scn["ctype"].toString().isEmpty())
            headers.append({ "Content-Type", scn["ctype"].toString().toLatin1() });
        for (const auto &h : scn["hdrs"].toArray()) {
            headers.append({ h.toArray().at(0).toString().toLatin1(), h.toArray().at(1).toString().toLatin1() });
            wanted << h.toArray().at(0).toString();
        }
        {
            QJsonObject r;
            r["e"] = "Reset";
            r["scn"] = scn["id"];
            r["target"] = scn["path"];
            r["ctype"] = scn["ctype"].toString().isEmpty() ? QStringLiteral("text/plain; charset=utf-8") : scn["ctype"].toString();
            QJsonObject hd;
            for (const auto &h : scn["hdrs"].toArray())
                hd[h.toArray().at(0).toString()] = h.toArray().at(1).toString();
            r["hdrs"] = hd;
            out.put(r);
        }
        int sent = 0;
        {
            Logger logger;
            if (scn["format"].toBool())
                logger.format([](const LogMessage &m) { return QStringLiteral("{\"msg\":\"") + m.message() + QStringLiteral("\"}"); });
            logger.append(FunctionHandlerPtr::create([&](LogMessage &m) {
                QJsonObject o;
                o["e"] = "Send";
                o["body"] = bytesOf(m.formattedMessage().toUtf8());
                out.put(o);
                ++sent;
                return true;
            }));
            const QUrl url(QStringLiteral("http://127.0.0.1:%1%2").arg(server.serverPort()).arg(scn["path"].toString()));
            if (headers.isEmpty())
                logger.append(HttpSinkPtr::create(url));
            else
                logger.append(HttpSinkPtr::create(url, headers));
            for (const auto &m : scn["msgs"].toArray()) {
                QMessageLogContext ctx("http.cpp", 1, "void post()", "net");
                logger.processMessage(QtInfoMsg, ctx, vtrace::fromUnits(m.toArray()));
                if (sent % 3 == 0)
                    QCoreApplication::processEvents();
            }
            QElapsedTimer t;
            t.start();
            while (received < sent && t.elapsed() < 15000)
                QCoreApplication::processEvents(QEventLoop::AllEvents, 50);
        }
        for (int i = 0; i < 20; ++i)
            QCoreApplication::processEvents(QEventLoop::AllEvents, 5);
        QJsonObject d;
        d["e"] = "Done";
        out.put(d);
    }
    out.flush();
    return 0;
}
