// Conformance driver for spec/QtlRotation.tla (properties C05-C10, file half of C11).
//
// Input: one JSON scenario per line (see vlib/rotation.py).  Every op is executed on a REAL
// RotatingFileSink / FileSink writing real files below the scenario's scratch directory, under the
// libc interposer of common/vfs.cpp: virtual wall clock and modification times, one "Sys" event per
// libc call on the directory (= one labelled step of the spec), optional crash right before the k-th
// call of one op, optional injected failures.  After every op the directory is listed (name, size,
// mtime, bytes) so that the projection (python: record parsing, independent gzip decoding) can give the
// spec the abstract directory the implementation really produced.
#include <QByteArray>
#include <QCoreApplication>
#include <QDir>
#include <QFile>
#include <QJsonArray>
#include <QJsonDocument>
#include <QJsonObject>

#include <dirent.h>
#include <fcntl.h>
#include <sys/stat.h>
#include <sys/wait.h>
#include <unistd.h>

#include <iostream>
#include <map>
#include <condition_variable>
#include <memory>
#include <mutex>
#include <thread>
#include <string>

#include "sinks/filesink.h"
#include "sinks/rotatingfilesink.h"
#include "vfs.h"

using namespace QtLogger;

namespace {

std::mutex g_emitMx;

void emitLine(const QJsonObject &o)
{
    QByteArray b = QJsonDocument(o).toJson(QJsonDocument::Compact);
    b.append('\n');
    std::lock_guard<std::mutex> lk(g_emitMx);
    const char *p = b.constData();
    long left = b.size();
    while (left > 0) {
        const long w = vfs::realWrite(1, p, (unsigned long)left);
        if (w <= 0)
            break;
        p += w;
        left -= w;
    }
}

struct Seen
{
    unsigned long long ino;
    long long size;
    long long mt;
    unsigned long long edge;
};
std::map<std::string, Seen> g_seen;
bool g_hitAny = false;

QJsonArray listDir(const std::string &root, bool forceContent)
{
    vfs::setQuiet(true);
    QJsonArray out;
    std::map<std::string, Seen> now;
    DIR *d = opendir(root.c_str());
    if (d) {
        std::map<std::string, bool> names;
        while (struct dirent *e = readdir(d)) {
            std::string n = e->d_name;
            if (n == "." || n == "..")
                continue;
            names[n] = true;
        }
        closedir(d);
        for (const auto &kv : names) {
            const std::string p = root + "/" + kv.first;
            struct stat st;
            if (lstat(p.c_str(), &st) != 0)
                continue;
            QJsonObject f;
            f["name"] = QString::fromStdString(kv.first);
            if (!S_ISREG(st.st_mode)) {
                f["special"] = true;
                out.append(f);
                continue;
            }
            const long long mt = (long long)st.st_mtim.tv_sec * 1000 + st.st_mtim.tv_nsec / 1000000;
            f["size"] = (double)st.st_size;
            f["mt"] = (double)mt;
            // the content is passed with every listing; only for large files that provably did not change since the
            // previous listing (same inode, size, mtime AND same bytes at both ends) it is replaced by "same" -
            // inode numbers are reused, sizes and virtual mtimes repeat
            QByteArray content;
            int fd = ::open(p.c_str(), O_RDONLY);
            if (fd >= 0) {
                char buf[65536];
                ssize_t r;
                while ((r = ::read(fd, buf, sizeof buf)) > 0)
                    content.append(buf, int(r));
                ::close(fd);
            }
            const unsigned long long edge = qHash(content.left(4096)) * 1000003ULL + qHash(content.right(4096)) + qHash(content.mid(content.size() / 2, 4096));
            Seen s { (unsigned long long)st.st_ino, (long long)st.st_size, mt, edge };
            now[kv.first] = s;
            auto it = g_seen.find(kv.first);
            const bool same = !forceContent && st.st_size > 65536 && it != g_seen.end() && it->second.ino == s.ino
                    && it->second.size == s.size && it->second.mt == s.mt && it->second.edge == s.edge;
            if (same)
                f["same"] = true;
            else
                f["b64"] = QString::fromLatin1(content.toBase64());
            out.append(f);
        }
    }
    g_seen.swap(now);
    vfs::setQuiet(false);
    return out;
}

void plant(const std::string &root, const QJsonObject &p)
{
    vfs::setQuiet(true);
    const std::string path = root + "/" + p["name"].toString().toStdString();
    if (p["dir"].toBool()) {
        ::mkdir(path.c_str(), 0755);
        vfs::setQuiet(false);
        return;
    }
    const QByteArray content = QByteArray::fromBase64(p["b64"].toString().toLatin1());
    int fd = ::open(path.c_str(), O_WRONLY | O_CREAT | O_TRUNC, 0644);
    if (fd >= 0) {
        vfs::realWrite(fd, content.constData(), (unsigned long)content.size());
        const long long ms = (long long)p["mt"].toDouble();
        struct timespec ts[2];
        ts[0].tv_sec = ts[1].tv_sec = ms / 1000;
        ts[0].tv_nsec = ts[1].tv_nsec = (ms % 1000) * 1000000L;
        futimens(fd, ts);
        ::close(fd);
    }
    vfs::setQuiet(false);
}

void sysEvent(const vfs::Event &ev)
{
    QJsonObject o;
    o["e"] = "Sys";
    o["c"] = ev.call;
    o["f"] = QString::fromStdString(ev.path);
    if (!ev.path2.empty())
        o["t"] = QString::fromStdString(ev.path2);
    if (ev.mode[0])
        o["m"] = ev.mode;
    if (ev.created)
        o["created"] = true;
    if (!strcmp(ev.call, "write"))
        o["n"] = (double)ev.n;
    o["ok"] = ev.ok;
    if (!ev.ok)
        o["err"] = ev.err;
    emitLine(o);
}

int runScenario(const QJsonObject &scn)
{
    const std::string root = scn["root"].toString().toStdString();
    const QString path = QString::fromStdString(root) + "/" + scn["file"].toString();
    const bool resume = scn["resume"].toBool();
    const int start = scn["start"].toInt(0);
    const QJsonArray ops = scn["ops"].toArray();
    const QJsonObject crash = scn["crash"].toObject();
    const QJsonObject fault = scn["fault"].toObject();
    const int crashOp = crash.isEmpty() ? -1 : crash["op"].toInt();
    const long crashK = crash.isEmpty() ? 0 : long(crash["k"].toInt());
    const int faultOp = fault.isEmpty() ? -1 : fault["op"].toInt();

    g_seen.clear();
    vfs::clearFaults();
    vfs::setRoot(root);
    vfs::setCallback(sysEvent);
    setenv("TZ", "UTC", 1);       // an earlier scenario may have changed the zone
    tzset();
    vfs::setNowMs((long long)scn["now"].toDouble());

    if (!resume) {
        vfs::setQuiet(true);
        QDir(QString::fromStdString(root)).removeRecursively();
        QDir().mkpath(QString::fromStdString(root));
        vfs::setQuiet(false);
        for (const auto &p : scn["plants"].toArray())
            plant(root, p.toObject());
    }
    {
        QJsonObject o;
        o["e"] = resume ? "Resume" : "Reset";
        o["scn"] = scn["id"].toInt();
        o["list"] = listDir(root, true);
        emitLine(o);
    }

    std::unique_ptr<FileSink> sink;
    for (int i = start; i < ops.size(); ++i) {
        const QJsonObject op = ops.at(i).toObject();
        const QString kind = op["op"].toString();
        if (kind == "now") {
            vfs::setNowMs((long long)op["ms"].toDouble());
            QJsonObject o;
            o["e"] = "Now";
            o["ms"] = op["ms"];
            emitLine(o);
            continue;
        }
        if (kind == "zone") {
            // the process finds itself in another time zone: local dates shift by whole days, time goes on
            const int z = op["z"].toInt();
            setenv("TZ", z == 0 ? "UTC" : (z < 0 ? "VRF+24" : "VRF-24"), 1);
            tzset();
            vfs::setNowMs((long long)op["ms"].toDouble());
            QJsonObject o;
            o["e"] = "Zone";
            o["z"] = z;
            o["ms"] = op["ms"];
            emitLine(o);
            continue;
        }
        {
            QJsonObject o;
            o["e"] = "Begin";
            o["op"] = kind;
            o["i"] = i;
            emitLine(o);
        }
        vfs::resetCounter();
        if (i == crashOp) {
            vfs::armCrash(crashK, [i](long k, const vfs::Event &ev) {
                QJsonObject o;
                o["e"] = "CrashAt";
                o["i"] = i;
                o["k"] = (double)k;
                o["next"] = QString::fromLatin1(ev.call) + " " + QString::fromStdString(ev.path);
                emitLine(o);
            });
        }
        if (i == faultOp) {
            const QString fk = fault["kind"].toString();
            vfs::setFaults(fk == "rename", fk == "creategz", fk == "openin",
                           fk == "unlink" ? fault["nth"].toInt(1) : 0, fault["errno"].toInt(13));
        }
        if (kind == "ctor") {
            if (scn["kind"].toString() == "file") {
                sink.reset(new FileSink(path));
            } else {
                // a restarted process may pass other constructor arguments than the one before
                const int L = op.contains("L") ? op["L"].toInt() : scn["L"].toInt();
                const int N = op.contains("N") ? op["N"].toInt() : scn["N"].toInt();
                const int opts = op.contains("opts") ? op["opts"].toInt() : scn["opts"].toInt();
                sink.reset(new RotatingFileSink(path, L, N, RotatingFileSink::Options(opts)));
            }
        } else if (kind == "send" && sink) {
            const QString text = QString::fromUtf8(QByteArray::fromBase64(op["b64"].toString().toLatin1()));
            QMessageLogContext ctx;
            LogMessage msg(QtDebugMsg, ctx, text);
            sink->send(msg);
        } else if (kind == "flush" && sink) {
            sink->flush();
        } else if (kind == "destroy") {
            sink.reset();
        }
        const long calls = vfs::callsSinceArm();
        if (i == faultOp)
            vfs::clearFaults();
        if (i == crashOp) {
            // the op completed with fewer calls than the crash index: die now, right after it
            QJsonObject o;
            o["e"] = "CrashAt";
            o["i"] = i;
            o["k"] = (double)(calls + 1);
            o["next"] = "return";
            emitLine(o);
            _exit(77);
        }
        QJsonObject o;
        o["e"] = "End";
        o["calls"] = (double)calls;
        o["list"] = listDir(root, false);
        emitLine(o);
    }
    // leave the sink's destructor out of the trace unless the scenario asked for a destroy
    if (sink) {
        vfs::setCallback(nullptr);
        vfs::setQuiet(true);
        sink.reset();
        vfs::setQuiet(false);
    }
    return 0;
}

// Two sinks, each in its own directory and driven by its own thread, start at the same moment: both find a large log
// file left by an earlier run, rotate it on start-up and compress it - concurrently.  Events carry the directory
// ("sub") so that the projection can follow each sink on its own.
int runTwin(const QJsonObject &scn)
{
    const std::string root = scn["root"].toString().toStdString();
    vfs::clearFaults();
    vfs::setRoot(root);
    vfs::setCallback(sysEvent);
    setenv("TZ", "UTC", 1);       // an earlier scenario may have changed the zone
    tzset();
    vfs::setNowMs((long long)scn["now"].toDouble());
    vfs::setQuiet(true);
    QDir(QString::fromStdString(root)).removeRecursively();
    vfs::setQuiet(false);
    const QJsonArray subs = scn["subs"].toArray();
    for (const auto &v : subs) {
        vfs::setQuiet(true);
        QDir().mkpath(QString::fromStdString(root) + "/" + v.toString());
        vfs::setQuiet(false);
    }
    for (const auto &p : scn["plants"].toArray()) {
        QJsonObject o = p.toObject();
        plant(root + "/" + o["sub"].toString().toStdString(), o);
    }
    std::mutex listMx;
    auto listSub = [&](const QString &sub, bool force) {
        std::lock_guard<std::mutex> lk(listMx);
        g_seen.clear();
        (void)force;
        return listDir(root + "/" + sub.toStdString(), true);
    };
    {
        QJsonObject o;
        o["e"] = "Reset";
        o["scn"] = scn["id"].toInt();
        QJsonObject lists;
        for (const auto &v : subs)
            lists[v.toString()] = listSub(v.toString(), true);
        o["lists"] = lists;
        emitLine(o);
    }
    std::mutex mx;
    std::condition_variable cv;
    int ready = 0;
    const int n = subs.size();
    std::vector<std::thread> threads;
    for (const auto &v : subs) {
        const QString sub = v.toString();
        threads.emplace_back([&, sub] {
            auto ev = [&](const char *e, const char *op, bool list) {
                QJsonObject o;
                o["e"] = e;
                o["sub"] = sub;
                if (op)
                    o["op"] = op;
                if (list)
                    o["list"] = listSub(sub, true);
                emitLine(o);
            };
            const QString path = QString::fromStdString(root) + "/" + sub + "/" + scn["file"].toString();
            ev("Begin", "ctor", false);
            std::unique_ptr<FileSink> sink(new RotatingFileSink(path, scn["L"].toInt(), scn["N"].toInt(),
                                                                RotatingFileSink::Options(scn["opts"].toInt())));
            ev("End", nullptr, true);
            {
                std::unique_lock<std::mutex> lk(mx);
                ++ready;
                cv.notify_all();
                cv.wait(lk, [&] { return ready >= n; });
            }
            ev("Begin", "send", false);
            QMessageLogContext ctx;
            LogMessage msg(QtDebugMsg, ctx, QString::fromUtf8(QByteArray::fromBase64(scn["b64"].toString().toLatin1())));
            sink->send(msg);
            ev("End", nullptr, true);
            ev("Begin", "destroy", false);
            sink.reset();
            ev("End", nullptr, true);
        });
    }
    for (auto &t : threads)
        t.join();
    return 0;
}

} // namespace

int main(int argc, char **argv)
{
    setenv("TZ", "UTC", 1);
    QCoreApplication app(argc, argv);
    if (argc < 2) {
        std::cerr << "usage: drv_rotation <scenarios.ndjson>\n";
        return 2;
    }
    QFile in(QString::fromLocal8Bit(argv[1]));
    vfs::setQuiet(true);
    const bool opened = in.open(QIODevice::ReadOnly);
    QList<QByteArray> lines;
    if (opened)
        lines = in.readAll().split('\n');
    in.close();
    vfs::setQuiet(false);
    if (!opened) {
        std::cerr << "cannot read " << argv[1] << "\n";
        return 2;
    }
    for (const QByteArray &line : lines) {
        if (line.trimmed().isEmpty())
            continue;
        QJsonObject scn = QJsonDocument::fromJson(line).object();
        if (scn["twin"].toBool()) {
            runTwin(scn);
            g_hitAny = true;
            continue;
        }
        if (scn["crash"].toObject().isEmpty()) {
            runScenario(scn);
            continue;
        }
        // crash scenario: phase A runs in a child that is killed right before the chosen libc call; the
        // parent lists what is left on disk; phase B (a new process) carries on over that directory
        fflush(nullptr);
        pid_t a = fork();
        if (a == 0) {
            runScenario(scn);
            _exit(0);
        }
        int status = 0;
        waitpid(a, &status, 0);
        {
            QJsonObject o;
            o["e"] = "Crash";
            o["code"] = WIFEXITED(status) ? WEXITSTATUS(status) : -WTERMSIG(status);
            g_seen.clear();
            o["list"] = listDir(scn["root"].toString().toStdString(), true);
            emitLine(o);
        }
        pid_t b = fork();
        if (b == 0) {
            scn["resume"] = true;
            scn["start"] = scn["crash"].toObject()["op"].toInt() + 1;
            scn["now"] = scn["resume_now"];
            scn.remove("crash");
            runScenario(scn);
            _exit(0);
        }
        waitpid(b, &status, 0);
        if (!WIFEXITED(status) || WEXITSTATUS(status) != 0) {
            QJsonObject o;
            o["e"] = "ChildFailed";
            o["status"] = status;
            emitLine(o);
        }
        g_hitAny = true;
    }
    if (!vfs::interposersHit() && !g_hitAny) {
        std::cerr << "interposers were never hit: symbol interposition does not work in this build\n";
        return 3;
    }
    return 0;
}
