// Conformance driver for spec/QtlThreads.tla (properties C02, C03, C04 - record mode).
//
// Input: one JSON scenario per line.  Each scenario builds a REAL Logger (or a bare
// OwnThreadHandler<Pipeline>), installs it as Qt's message handler, and lets N producer threads log
// through Qt's logging API while stopper threads call moveToOwnThread()/resetOwnThread().  Events are
// written as ndjson in one global order (a mutex-protected sequence): the producers' call begin/end, the
// QTLOGGER_VERIF points reached inside the library (thread tag + point name + the scalars the point
// carries), and what probe handlers inside the pipeline see (enter, delivery with every LogMessage
// accessor, exit).  A seeded jitter at every point widens the schedules seen.
#include <QCoreApplication>
#include <QJsonArray>
#include <QJsonDocument>
#include <QJsonObject>
#include <QSemaphore>
#include <QThread>

#include <atomic>
#include <chrono>
#include <csignal>
#include <cstring>
#include <iostream>
#include <memory>
#include <mutex>
#include <random>
#include <string>
#include <thread>
#include <vector>

#include <unistd.h>

#include "attrhandlers/seqnumberattr.h"
#include "functionhandler.h"
#include "logger.h"
#include "ownthreadhandler.h"
#include "pipeline.h"
#include "verifpoint.h"
#include "thr_common.h"

using namespace QtLogger;

using namespace thr;

namespace {

struct Ctx
{
    // heap buffers for the context strings (freed / overwritten right after the call returns)
    static void call(bool heap, const std::string &file, int line, const std::string &func, const std::string &cat,
                     QtMsgType type, const QString &text, std::function<void(const QMessageLogContext &, QtMsgType, const QString &)> fn,
                     bool nullCtx = false)
    {
        if (nullCtx) {
            // release builds pass null pointers for file / function (and a category may be null as well)
            QMessageLogContext ctx(nullptr, line, nullptr, nullptr);
            fn(ctx, type, text);
            return;
        }
        if (!heap) {
            // the strings outlive the call (literals in real code)
            static std::mutex keepMx;
            static std::vector<std::unique_ptr<std::string>> keep;
            const char *f, *fu, *c;
            {
                std::lock_guard<std::mutex> lk(keepMx);
                keep.emplace_back(new std::string(file));
                f = keep.back()->c_str();
                keep.emplace_back(new std::string(func));
                fu = keep.back()->c_str();
                keep.emplace_back(new std::string(cat));
                c = keep.back()->c_str();
            }
            QMessageLogContext ctx(f, line, fu, c);
            fn(ctx, type, text);
            return;
        }
        char *f = strdup(file.c_str());
        char *fu = strdup(func.c_str());
        char *c = strdup(cat.c_str());
        {
            QMessageLogContext ctx(f, line, fu, c);
            fn(ctx, type, text);
        }
        memset(f, '#', strlen(f));
        memset(fu, '#', strlen(fu));
        memset(c, '#', strlen(c));
        free(f);
        free(fu);
        free(c);
    }
};

void runScenario(const QJsonObject &scn)
{
    const bool useLogger = scn["mode"].toString() != "bare";
    const int nprod = scn["producers"].toInt(2);
    const int nmsg = scn["msgs"].toInt(5);
    const bool heap = scn["heapctx"].toBool();
    const bool gated = scn["gate"].toBool();
    const int fatalEvery = scn["fatalEvery"].toInt(0);   // every n-th message of a producer is a fatal one (0 = none)
    g_jitter = scn["jitter"].toInt(0);
    g_seed = unsigned(scn["seed"].toInt(1));
    t_rngInit = false;

    Probes probes;
    probes.sinkDelayUs = scn["sinkDelayUs"].toInt(0);
    probes.stallMs = scn["stallMs"].toInt(0);
    probes.relog = scn["relog"].toInt(0);
    {
        std::vector<std::pair<std::string, std::string>> gs;
        for (const auto &g : scn["gates"].toArray())
            gs.emplace_back(g.toArray().at(0).toString().toStdString(), g.toArray().at(1).toString().toStdString());
        g_gates.load(gs);
    }

    std::unique_ptr<Logger> logger;
    std::unique_ptr<OwnThreadHandler<Pipeline>> bare;
    if (useLogger) {
        logger.reset(new Logger);
        *logger << probes.enter() << SeqNumberAttrPtr::create() << probes.sink() << probes.exit() << probes.flushProbe();
        logger->installMessageHandler();
    } else {
        bare.reset(new OwnThreadHandler<Pipeline>);
        bare->append(probes.enter());
        bare->append(SeqNumberAttrPtr::create());
        bare->append(probes.sink());
        bare->append(probes.exit());
    }
    auto doMove = [&] { if (useLogger) logger->moveToOwnThread(); else bare->moveToOwnThread(); };
    auto doReset = [&] { if (useLogger) logger->resetOwnThread(); else bare->resetOwnThread(); };

    {
        QJsonObject o;
        o["e"] = "Reset";
        o["scn"] = scn["id"].toInt();
        emitLine(o);
    }
    Verif::pointFn().store(pointCb, std::memory_order_release);

    probes.gate.set(!gated);
    std::atomic<int> returned { 0 };
    std::atomic<bool> blocked { false };

    auto runScript = [&](const std::string &who, const QJsonArray &script) {
        t_tag = who;
        t_rngInit = false;
        for (const auto &v : script) {
            const QString op = v.toString();
            if (op.startsWith("sleep:")) {
                std::this_thread::sleep_for(std::chrono::microseconds(op.mid(6).toInt()));
                continue;
            }
            if (op == "waitProducers") {
                // used with the gated sink: the producers must be able to return although no message
                // has been delivered yet
                const auto t0 = std::chrono::steady_clock::now();
                while (returned.load() < nprod) {
                    if (std::chrono::steady_clock::now() - t0 > std::chrono::seconds(10)) {
                        blocked = true;
                        QJsonObject o;
                        o["e"] = "Blocked";
                        o["returned"] = returned.load();
                        emitLine(o);
                        break;
                    }
                    std::this_thread::sleep_for(std::chrono::milliseconds(1));
                }
                continue;
            }
            if (op == "install") {
                // configure() installs the message handler after it has made the logger asynchronous
                if (useLogger)
                    logger->installMessageHandler();
                continue;
            }
            if (op == "openGate") {
                QJsonObject o;
                o["e"] = "GateOpen";
                emitLine(o);
                probes.gate.set(true);
                continue;
            }
            QJsonObject o;
            o["e"] = "Op";
            o["t"] = QString::fromStdString(who);
            o["op"] = op;
            o["ph"] = "begin";
            emitLine(o);
            if (op == "move")
                doMove();
            else if (op == "reset")
                doReset();
            o["ph"] = "end";
            emitLine(o);
        }
    };

    std::vector<std::thread> threads;
    const bool startTogether = scn["startTogether"].toBool();
    std::atomic<int> arrivedAtStart { 0 };
    const QJsonArray pre = scn["pre"].toArray();        // ops of M before the producers start
    runScript("M", pre);
    for (int p = 1; p <= nprod; ++p) {
        threads.emplace_back([&, p] {
            const std::string me = "p" + std::to_string(p);
            t_tag = me;
            t_rngInit = false;
            const QString tid = QString::number(quint64(reinterpret_cast<quintptr>(QThread::currentThreadId())));
            for (int i = 1; i <= nmsg; ++i) {
                const QString text = QStringLiteral("%1:%2:payload-%3").arg(QString::fromStdString(me)).arg(i).arg(i * 7919 % 1000);
                const std::string file = "src/" + me + "/file" + std::to_string(i % 3) + ".cpp";
                const std::string func = "void " + me + "::work" + std::to_string(i) + "(int)";
                const std::string cat = (i % 4 == 0) ? "default" : ("cat." + me);
                static const QtMsgType kinds[5] = { QtWarningMsg, QtDebugMsg, QtInfoMsg, QtCriticalMsg, QtDebugMsg };
                const QtMsgType type = (fatalEvery > 0 && i % fatalEvery == 0) ? QtFatalMsg : kinds[(p + i) % 5];
                const int line = 100 * p + i;
                const bool nullCtx = !useLogger && (i % 5 == 3);     // (QMessageLogger insists on a category)
                QJsonObject f;
                f["type"] = typeName(type);
                f["text"] = text;
                f["file"] = nullCtx ? QString() : QString::fromStdString(file);
                f["line"] = line;
                f["func"] = nullCtx ? QString() : QString::fromStdString(func);
                f["cat"] = nullCtx ? QString() : QString::fromStdString(cat);
                f["tid"] = tid;
                // (bare handler) the message reaches the hand-off with an attribute and a formatted text on it
                f["pre"] = useLogger ? 0 : line;
                f["fmt"] = useLogger ? QString() : QStringLiteral("F|") + text;
                QJsonObject b;
                b["e"] = "CallBegin";
                b["t"] = QString::fromStdString(me);
                b["m"] = msgId(text);
                b["f"] = f;
                b["ms"] = nowRelMs();
                emitLine(b);
                jitter();
                if (startTogether && i == 1) {
                    // the very first message of a fresh logger, from all producers at the same instant
                    arrivedAtStart.fetch_add(1);
                    while (arrivedAtStart.load() < nprod) { }
                }
                Ctx::call(heap, file, line, func, cat, type, text,
                          [&](const QMessageLogContext &ctx, QtMsgType ty, const QString &tx) {
                              if (useLogger) {
                                  QMessageLogger ml(ctx.file, ctx.line, ctx.function, ctx.category);
                                  const QByteArray u = tx.toUtf8();
                                  if (ty == QtDebugMsg) ml.debug("%s", u.constData());
                                  else if (ty == QtInfoMsg) ml.info("%s", u.constData());
                                  else if (ty == QtWarningMsg) ml.warning("%s", u.constData());
                                  else if (ty == QtCriticalMsg) ml.critical("%s", u.constData());
                                  else Logger::messageHandler(ty, ctx, tx);   // what Qt calls for qFatal(), without its abort()
                              } else {
                                  LogMessage lm(ty, ctx, tx);
                                  lm.setAttribute(QStringLiteral("pre"), line);
                                  lm.setFormattedMessage(QStringLiteral("F|") + tx);
                                  bare->process(lm);
                              }
                          }, nullCtx);
                QJsonObject e;
                e["e"] = "CallEnd";
                e["t"] = QString::fromStdString(me);
                e["m"] = msgId(text);
                e["ms"] = nowRelMs();
                emitLine(e);
                jitter();
            }
            ++returned;
        });
    }
    const QJsonArray script = scn["script"].toArray();
    const QJsonArray script2 = scn["script2"].toArray();
    threads.emplace_back([&] { runScript("M", script); });
    if (!script2.isEmpty())
        threads.emplace_back([&] { runScript("S2", script2); });
    for (auto &t : threads)
        t.join();
    // epilogue on M: make sure the logger is synchronous again and everything is drained
    probes.gate.set(true);
    runScript("M", QJsonArray { "reset" });
    Verif::pointFn().store(nullptr, std::memory_order_release);
    if (useLogger) {
        Logger::restorePreviousMessageHandler();
        logger.reset();
    } else {
        bare.reset();
    }
    QJsonObject o;
    o["e"] = "Finished";
    o["gates_passed"] = g_gates.passed;
    o["gates_abandoned"] = g_gates.abandoned;
    emitLine(o);
    g_gates.load({});
    t_tag.clear();
}

} // namespace

int main(int argc, char **argv)
{
    QCoreApplication app(argc, argv);
    g_t0 = std::chrono::steady_clock::now();
    g_wall0 = std::chrono::system_clock::now();
    signal(SIGSEGV, crashHandler);
    signal(SIGBUS, crashHandler);
    signal(SIGABRT, crashHandler);
    if (argc < 2) {
        std::cerr << "usage: drv_threads <scenarios.ndjson>\n";
        return 2;
    }
    FILE *f = fopen(argv[1], "r");
    if (!f)
        return 2;
    std::vector<QByteArray> lines;
    char *buf = nullptr;
    size_t cap = 0;
    ssize_t n;
    while ((n = getline(&buf, &cap, f)) > 0)
        lines.emplace_back(QByteArray(buf, int(n)));
    fclose(f);
    free(buf);
    for (const auto &line : lines) {
        if (line.trimmed().isEmpty())
            continue;
        t_tag = "M";
        runScenario(QJsonDocument::fromJson(line).object());
    }
    return 0;
}
