// Conformance driver for spec/QtlEnv.tla and spec/QtlLineSinks.tla (beyond the listed properties).
//
//   drv_env attrs <histories.ndjson> <scratch-dir>
//        one line per history: {"id":n, "ops":[...]}; the history runs in a chain of child processes that share one
//        settings directory (XDG_CONFIG_HOME = <scratch-dir>/h<n>).  Ops:
//          {"op":"setapp","org":..,"name":..,"ver":..}    QCoreApplication::setOrganizationName / ApplicationName / Version
//          {"op":"info","h":k} {"op":"uuid","h":k,"name":..} {"op":"sys","h":k}     construct an attribute handler
//          {"op":"msg","h":k}                              ask handler k for its attributes
//          {"op":"race"}                                   two more instances of the application (forked) build an AppUuidAttr
//                                                          at the same moment; reports both UUIDs and what the settings hold
//          {"op":"drop","h":k}                             destroy handler k
//          {"op":"restart","wipe":[[org,name],...],"hard":bool}
//                 end of this process (hard: _exit without running any destructor), settings files of the listed
//                 applications are deleted, the next process starts
//   drv_env sinks <histories.ndjson>
//        one line per history, all in this process.  Ops:
//          {"op":"newio","s":k,"d":j}   IODeviceSink k on device j (0 = null device pointer)
//          {"op":"setdev","s":k,"d":j}
//          {"op":"sendio","s":k,"m":{"type":t,"cat":..,"text":[units],"fmt":[units]|null}}
//          {"op":"opensys","s":k,"ident":..} / {"op":"sendsys","s":k,"m":..} / {"op":"closesys","s":k}
//        openlog / syslog / closelog are defined in this executable, so the library's calls end here and nothing
//        reaches the system log.  The ident pointer given to openlog is not copied by the C library; the driver
//        reports at every later syslog call whether the memory it points to is still alive (AddressSanitizer's
//        view of the address).
#include <QBuffer>
#include <QCoreApplication>
#include <QDir>
#include <QFile>
#include <QJsonArray>
#include <QJsonDocument>
#include <QJsonObject>
#include <QSettings>
#include <QSysInfo>

#include <cstdarg>
#include <cstdio>
#include <cstring>
#include <iostream>
#include <map>
#include <sys/wait.h>
#include <unistd.h>

#include "attrhandlers/appinfoattrs.h"
#include "attrhandlers/appuuidattr.h"
#include "attrhandlers/sysinfoattrs.h"
#include "sinks/iodevicesink.h"
#include "sinks/syslogsink.h"
#include "trace.h"

#if defined(__has_feature)
#    if __has_feature(address_sanitizer)
#        define DRV_ASAN 1
#    endif
#endif
#if defined(__SANITIZE_ADDRESS__)
#    define DRV_ASAN 1
#endif
#ifdef DRV_ASAN
extern "C" int __asan_address_is_poisoned(void const volatile *addr);
#endif

using namespace QtLogger;
using vtrace::units;

namespace {

QJsonArray g_sysCalls; // what the library handed to the C library's syslog interface since the last op
const char *g_identPtr = nullptr;

int identAlive()
{
    if (!g_identPtr)
        return -1; // no ident given
#ifdef DRV_ASAN
    return __asan_address_is_poisoned(g_identPtr) ? 0 : 1;
#else
    return -1;
#endif
}

void put(const QJsonObject &o)
{
    std::cout << QJsonDocument(o).toJson(QJsonDocument::Compact).constData() << "\n";
    std::cout.flush();
}

QJsonArray attrsOf(const QVariantHash &h)
{
    QStringList keys = h.keys();
    keys.sort();
    QJsonArray a;
    for (const QString &k : keys) {
        QJsonArray kv;
        kv.append(k);
        kv.append(h.value(k).toString());
        kv.append(QString::fromLatin1(h.value(k).typeName()));
        a.append(kv);
    }
    return a;
}

QString selfExe()
{
    char buf[4096];
    const ssize_t n = readlink("/proc/self/exe", buf, sizeof buf - 1);
    return n > 0 ? QString::fromLocal8Bit(buf, int(n)) : QString();
}

int runAttrsProcess(const QJsonArray &ops, int from, int argc, char **argv)
{
    // child: one process of the history; returns through _exit
    QCoreApplication app(argc, argv);
    QJsonObject st;
    st["e"] = "Start";
    st["pid"] = QString::number(getpid());
    const QString exe = selfExe();
    st["path"] = exe;
    st["dir"] = exe.left(exe.lastIndexOf('/'));
    st["org"] = QCoreApplication::organizationName();
    st["name"] = QCoreApplication::applicationName();
    st["ver"] = QCoreApplication::applicationVersion();
    put(st);
    std::map<int, AttrHandlerPtr> hs;
    QMessageLogContext ctx("f.cpp", 1, "void f()", "c");
    LogMessage lmsg(QtInfoMsg, ctx, QStringLiteral("x"));
    for (int i = from; i < ops.size(); ++i) {
        const QJsonObject op = ops.at(i).toObject();
        const QString k = op["op"].toString();
        QJsonObject o;
        o["e"] = "A";
        o["op"] = k;
        o["i"] = i;
        const int h = op["h"].toInt();
        if (k == "setapp") {
            QCoreApplication::setOrganizationName(op["org"].toString());
            QCoreApplication::setApplicationName(op["name"].toString());
            QCoreApplication::setApplicationVersion(op["ver"].toString());
        } else if (k == "info") {
            hs[h] = AppInfoAttrsPtr::create();
        } else if (k == "uuid") {
            hs[h] = op.contains("name") ? AppUuidAttrPtr::create(op["name"].toString()) : AppUuidAttrPtr::create();
            o["attrs"] = attrsOf(hs[h]->attributes(lmsg));
        } else if (k == "sys") {
            hs[h] = SysInfoAttrsPtr::create();
            QJsonObject w; // the same facts asked from Qt directly
            w["os_name"] = QSysInfo::productType();
            w["os_version"] = QSysInfo::productVersion();
            w["kernel_type"] = QSysInfo::kernelType();
            w["kernel_version"] = QSysInfo::kernelVersion();
            w["cpu_arch"] = QSysInfo::currentCpuArchitecture();
            w["build_abi"] = QSysInfo::buildAbi();
            w["build_cpu_arch"] = QSysInfo::buildCpuArchitecture();
            w["pretty_product_name"] = QSysInfo::prettyProductName();
            w["machine_host_name"] = QSysInfo::machineHostName();
            w["machine_unique_id"] = QString::fromLatin1(QSysInfo::machineUniqueId());
            w["boot_unique_id"] = QString::fromLatin1(QSysInfo::bootUniqueId());
            o["want"] = w;
        } else if (k == "race") {
            // two more instances of the application (forked copies of this process) construct their AppUuidAttr at the
            // same moment: both are held at a barrier, released together, and report the UUID they show
            int go[2];
            int res[2][2];
            pid_t kids[2];
            if (pipe(go) != 0)
                _exit(3);
            std::cout.flush();
            for (int j = 0; j < 2; ++j) {
                if (pipe(res[j]) != 0)
                    _exit(3);
                kids[j] = fork();
                if (kids[j] == 0) {
                    close(go[1]);
                    char c;
                    (void)!read(go[0], &c, 1);            // returns when the parent closes its end
                    QByteArray u;
                    {
                        AppUuidAttr a;
                        u = a.attributes(lmsg).value(QStringLiteral("app_uuid")).toString().toLatin1();
                    }
                    (void)!write(res[j][1], u.constData(), size_t(u.size()));
                    _exit(0);
                }
                close(res[j][1]);
            }
            close(go[0]);
            usleep(30000);                                // both children are blocked in read() by now
            close(go[1]);
            QJsonArray uuids;
            for (int j = 0; j < 2; ++j) {
                char buf[128];
                const ssize_t n = read(res[j][0], buf, sizeof buf);
                uuids.append(QString::fromLatin1(buf, n > 0 ? int(n) : 0));
                close(res[j][0]);
                int st = 0;
                waitpid(kids[j], &st, 0);
            }
            o["uuids"] = uuids;
            QSettings settings(QSettings::UserScope, QCoreApplication::organizationName(), QCoreApplication::applicationName());
            settings.sync();
            o["stored"] = settings.value(QStringLiteral("app_uuid")).toString();
        } else if (k == "msg") {
            o["attrs"] = attrsOf(hs.at(h)->attributes(lmsg));
        } else if (k == "drop") {
            hs.erase(h);
        } else if (k == "restart") {
            put(o);
            if (op["hard"].toBool())
                _exit(100 + 0);
            hs.clear();
            return i; // soft: the caller leaves through the destructors
        }
        put(o);
    }
    hs.clear();
    return -1;
}

int modeAttrs(const QByteArray &all, const QString &scratch, int argc, char **argv)
{
    for (const QByteArray &line : all.split('\n')) {
        if (line.trimmed().isEmpty())
            continue;
        const QJsonObject h = QJsonDocument::fromJson(line).object();
        const QJsonArray ops = h["ops"].toArray();
        const QString cfg = scratch + QStringLiteral("/h") + QString::number(h["id"].toInt());
        QDir().mkpath(cfg);
        QJsonObject r;
        r["e"] = "Reset";
        r["id"] = h["id"];
        put(r);
        int from = 0;
        while (from >= 0 && from <= ops.size()) {
            // position of the next restart op at or after `from`
            int stop = -1;
            for (int i = from; i < ops.size(); ++i)
                if (ops.at(i).toObject()["op"].toString() == "restart") {
                    stop = i;
                    break;
                }
            std::cout.flush();
            const pid_t pid = fork();
            if (pid == 0) {
                qputenv("XDG_CONFIG_HOME", cfg.toLocal8Bit());
                qputenv("HOME", cfg.toLocal8Bit());
                const int at = runAttrsProcess(ops, from, argc, argv);
                std::cout.flush();
                if (at >= 0)
                    exit(0); // soft end: static destructors run
                _exit(0);
            }
            int status = 0;
            waitpid(pid, &status, 0);
            const bool okExit = WIFEXITED(status) && (WEXITSTATUS(status) == 0 || WEXITSTATUS(status) == 100);
            if (!okExit) {
                QJsonObject c;
                c["e"] = "ChildFailed";
                c["status"] = status;
                put(c);
                break;
            }
            if (stop < 0)
                break;
            for (const auto &w : ops.at(stop).toObject()["wipe"].toArray()) {
                const QJsonArray on = w.toArray();
                QFile::remove(cfg + QStringLiteral("/") + on.at(0).toString() + QStringLiteral("/") + on.at(1).toString()
                              + QStringLiteral(".conf"));
            }
            from = stop + 1;
            if (from >= ops.size())
                break;
        }
        QDir(cfg).removeRecursively();
    }
    return 0;
}

QByteArray g_ctxKeep[3];

// setDevice is protected (FileSink uses it): a derived sink, as a user-written sink would be
struct OpenIO : IODeviceSink
{
    using IODeviceSink::IODeviceSink;
    using IODeviceSink::setDevice;
};

int modeSinks(const QByteArray &all)
{
    for (const QByteArray &line : all.split('\n')) {
        if (line.trimmed().isEmpty())
            continue;
        const QJsonObject h = QJsonDocument::fromJson(line).object();
        QJsonObject r;
        r["e"] = "Reset";
        r["id"] = h["id"];
        put(r);
        std::map<int, QSharedPointer<QBuffer>> devs;
        std::map<int, QSharedPointer<OpenIO>> ios;
        std::map<int, SyslogSinkPtr> sys;
        g_identPtr = nullptr;
        g_sysCalls = QJsonArray();
        auto dev = [&devs](int j) -> QIODevicePtr {
            if (j == 0)
                return QIODevicePtr();
            auto &d = devs[j];
            if (!d) {
                d = QSharedPointer<QBuffer>::create();
                d->open(QIODevice::WriteOnly);
            }
            return d;
        };
        for (const auto &v : h["ops"].toArray()) {
            const QJsonObject op = v.toObject();
            const QString k = op["op"].toString();
            const int s = op["s"].toInt();
            QJsonObject o;
            o["e"] = "S";
            o["op"] = k;
            o["s"] = s;
            auto makeMsg = [&op](auto &&use) {
                const QJsonObject m = op["m"].toObject();
                g_ctxKeep[0] = m["cat"].toString().toUtf8();
                QMessageLogContext ctx("f.cpp", 7, "void f()", g_ctxKeep[0].constData());
                LogMessage lm(QtMsgType(m["type"].toInt()), ctx, vtrace::fromUnits(m["text"].toArray()));
                if (!m["fmt"].isNull())
                    lm.setFormattedMessage(vtrace::fromUnits(m["fmt"].toArray()));
                use(lm);
            };
            if (k == "newio") {
                ios[s] = QSharedPointer<OpenIO>::create(dev(op["d"].toInt()));
            } else if (k == "setdev") {
                ios.at(s)->setDevice(dev(op["d"].toInt()));
            } else if (k == "sendio") {
                makeMsg([&](LogMessage &lm) { ios.at(s)->send(lm); });
            } else if (k == "opensys") {
                sys[s] = SyslogSinkPtr::create(op["ident"].toString());
            } else if (k == "sendsys") {
                makeMsg([&](LogMessage &lm) { sys.at(s)->send(lm); });
            } else if (k == "closesys") {
                sys.erase(s);
            }
            QJsonArray ds;
            for (auto &kv : devs) {
                QJsonArray e;
                e.append(kv.first);
                e.append(units(QString::fromUtf8(kv.second->data())));
                e.append(QString::fromUtf8(kv.second->data()).toUtf8() == kv.second->data()); // the bytes are valid UTF-8
                ds.append(e);
            }
            o["devs"] = ds;
            o["calls"] = g_sysCalls;
            g_sysCalls = QJsonArray();
            put(o);
        }
        sys.clear();
        g_sysCalls = QJsonArray();
    }
    return 0;
}

} // namespace

// ---- the C library's syslog interface, defined here so that the library's calls end in the driver ----
extern "C" {
void openlog(const char *ident, int option, int facility)
{
    QJsonObject c;
    c["c"] = "openlog";
    c["ident"] = units(QString::fromUtf8(ident ? ident : ""));
    c["option"] = option;
    c["facility"] = facility;
    g_identPtr = ident;
    g_sysCalls.append(c);
}
void closelog(void)
{
    QJsonObject c;
    c["c"] = "closelog";
    g_identPtr = nullptr;
    g_sysCalls.append(c);
}
static void recordSyslog(int priority, const char *fmt, va_list ap)
{
    char buf[65536];
    vsnprintf(buf, sizeof buf, fmt, ap);
    QJsonObject c;
    c["c"] = "syslog";
    c["prio"] = priority;
    c["text"] = units(QString::fromUtf8(buf));
    c["identAlive"] = identAlive();
    g_sysCalls.append(c);
}
void syslog(int priority, const char *fmt, ...)
{
    va_list ap;
    va_start(ap, fmt);
    recordSyslog(priority, fmt, ap);
    va_end(ap);
}
void __syslog_chk(int priority, int, const char *fmt, ...)
{
    va_list ap;
    va_start(ap, fmt);
    recordSyslog(priority, fmt, ap);
    va_end(ap);
}
void vsyslog(int priority, const char *fmt, va_list ap)
{
    recordSyslog(priority, fmt, ap);
}
}

int main(int argc, char **argv)
{
    if (argc < 3) {
        fprintf(stderr, "usage: drv_env attrs <file> <scratch> | sinks <file>\n");
        return 2;
    }
    const QString mode = QString::fromLocal8Bit(argv[1]);
    QFile f(QString::fromLocal8Bit(argv[2]));
    if (!f.open(QIODevice::ReadOnly))
        return 2;
    const QByteArray all = f.readAll();
    if (mode == "attrs" && argc >= 4)
        return modeAttrs(all, QString::fromLocal8Bit(argv[3]), argc, argv);
    if (mode == "sinks")
        return modeSinks(all);
    return 2;
}
