// Conformance driver for spec/QtlJson.tla (properties C13, C18).
//
// Input: one JSON case per line: a message (type, text, category, file, function, line; file/function/category may be
// null pointers) with custom attributes of every kind, and which formatter to run ("json" compact / indented, "sentry").
// Output: the REAL formatter's result as base64 of its UTF-8 bytes, the message's time (epoch ms) and thread id.
#include <QCoreApplication>
#include <QFile>
#include <cstring>
#include <QJsonArray>
#include <QJsonDocument>
#include <QJsonObject>

#include "formatters/jsonformatter.h"
#include "formatters/sentryformatter.h"
#include "sentry.h"
#include "simplepipeline.h"
#include "trace.h"

using namespace QtLogger;
using vtrace::fromUnits;

static QtMsgType typeOf(const QString &s)
{
    if (s == "debug") return QtDebugMsg;
    if (s == "info") return QtInfoMsg;
    if (s == "warning") return QtWarningMsg;
    if (s == "critical") return QtCriticalMsg;
    return QtFatalMsg;
}

static QVariant variantOf(const QJsonObject &v)
{
    const QString t = v["t"].toString();
    if (t == "s")
        return fromUnits(v["v"].toArray());
    if (t == "n") {
        const QString txt = v["v"].toString();
        bool ok = false;
        const qlonglong i = txt.toLongLong(&ok);
        if (ok)
            return QVariant(i);
        return QVariant(txt.toDouble());
    }
    if (t == "b")
        return QVariant(v["v"].toBool());
    if (t == "a") {
        QVariantList l;
        for (const auto &x : v["v"].toArray())
            l.append(variantOf(x.toObject()));
        return l;
    }
    if (t == "o") {
        QVariantMap m;
        for (const auto &x : v["v"].toArray()) {
            const QJsonObject kv = x.toObject();
            m.insert(fromUnits(kv["k"].toArray()), variantOf(kv["v"].toObject()));
        }
        return m;
    }
    return QVariant();
}

int main(int argc, char **argv)
{
    QCoreApplication app(argc, argv);
    if (argc < 2)
        return 2;
    if (argc >= 3 && QByteArray(argv[1]) == "url") {
        // sentry.h: the store endpoint from a DSN, from its three parts, from the environment; the headers
        QFile uin(QString::fromLocal8Bit(argv[2]));
        if (!uin.open(QIODevice::ReadOnly))
            return 2;
        vtrace::Writer uout;
        while (!uin.atEnd()) {
            const QByteArray line = uin.readLine();
            if (line.trimmed().isEmpty())
                continue;
            const QJsonObject c = QJsonDocument::fromJson(line).object();
            const QString host = c["host"].toString(), project = c["project"].toString(), key = c["key"].toString();
            const QString dsn = QStringLiteral("https://%1@%2/%3").arg(key, host, project);
            QJsonObject r;
            r["e"] = "Url";
            r["host"] = host;
            r["project"] = project;
            r["key"] = key;
            r["dsn"] = dsn;
            r["fromDsn"] = sentryUrl(dsn);
            r["fromParts"] = sentryUrl(host, project, key);
            qunsetenv("SENTRY_HOST");
            qunsetenv("SENTRY_PROJECT_ID");
            qunsetenv("SENTRY_PUBLIC_KEY");
            qputenv("SENTRY_DSN", dsn.toLocal8Bit());
            bool ok = checkSentryEnv();
            r["fromEnvDsn"] = sentryUrl();
            qunsetenv("SENTRY_DSN");
            ok = ok && !checkSentryEnv();
            qputenv("SENTRY_HOST", host.toLocal8Bit());
            qputenv("SENTRY_PROJECT_ID", project.toLocal8Bit());
            ok = ok && !checkSentryEnv();                     // the key is still missing
            qputenv("SENTRY_PUBLIC_KEY", key.toLocal8Bit());
            ok = ok && checkSentryEnv();
            r["fromEnvParts"] = sentryUrl();
            r["envOk"] = ok;
            QString ctype;
            for (const auto &h : sentryHeaders())
                if (h.first == "Content-Type")
                    ctype = QString::fromLatin1(h.second);
            r["ctype"] = ctype;
            uout.put(r);
        }
        uout.flush();
        return 0;
    }
    QFile in(QString::fromLocal8Bit(argv[1]));
    if (!in.open(QIODevice::ReadOnly))
        return 2;
    vtrace::Writer out;
    JsonFormatter compact(true), indented(false);
    SentryFormatter sentry;
    // the same formatters as the fluent interface hands them out (every other case goes through these): an indented
    // pipeline is built first, a compact one afterwards - whatever the builder shares between calls must not leak
    // from one into the other
    SimplePipeline viaIndented, viaCompact, viaSentry;
    viaIndented.formatToJson(false);
    viaCompact.formatToJson(true);
    viaSentry.formatToSentry();
    while (!in.atEnd()) {
        const QByteArray line = in.readLine();
        if (line.trimmed().isEmpty())
            continue;
        const QJsonObject c = QJsonDocument::fromJson(line).object();
        const QByteArray file = fromUnits(c["file"].toArray()).toLatin1();
        const QByteArray func = fromUnits(c["func"].toArray()).toLatin1();
        const QByteArray cat = fromUnits(c["cat"].toArray()).toLatin1();
        const bool nulls = c["nullctx"].toBool();
        // every other pair of cases passes its context strings in the SAME three buffers (as a logging macro wrapper with
        // scratch buffers would): a formatter object that remembers something under the address of a context string
        // meets that address again with other text in it
        static char fileBuf[4096], funcBuf[4096], catBuf[4096];
        const bool reuse = (c["id"].toInt() / 2) % 2 == 0 && file.size() < 4096 && func.size() < 4096 && cat.size() < 4096;
        if (reuse) {
            memcpy(fileBuf, file.constData(), size_t(file.size()) + 1);
            memcpy(funcBuf, func.constData(), size_t(func.size()) + 1);
            memcpy(catBuf, cat.constData(), size_t(cat.size()) + 1);
        }
        QMessageLogContext ctx(nulls ? nullptr : reuse ? fileBuf : file.constData(), c["line"].toInt(),
                               nulls ? nullptr : reuse ? funcBuf : func.constData(),
                               nulls ? nullptr : reuse ? catBuf : cat.constData());
        LogMessage msg(typeOf(c["type"].toString()), ctx, fromUnits(c["text"].toArray()));
        for (const auto &a : c["attrs"].toArray()) {
            const QJsonObject o = a.toObject();
            msg.setAttribute(fromUnits(o["k"].toArray()), variantOf(o["v"].toObject()));
        }
        if (c["hasprefmt"].toBool())
            msg.setFormattedMessage(fromUnits(c["prefmt"].toArray()));
        const QString mode = c["mode"].toString();
        QString res;
        if (c["id"].toInt() % 2 == 0) {
            (mode == "sentry" ? viaSentry : mode == "compact" ? viaCompact : viaIndented).process(msg);
            res = msg.formattedMessage();
        } else if (mode == "sentry")
            res = sentry.format(msg);
        else
            res = (mode == "compact" ? compact : indented).format(msg);
        QJsonObject r;
        r["id"] = c["id"];
        r["b64"] = QString::fromLatin1(res.toUtf8().toBase64());
        r["ms"] = QString::number(msg.time().toMSecsSinceEpoch());
        r["tid"] = QString::number(msg.threadId());
        out.put(r);
    }
    out.flush();
    return 0;
}
