// Child process for property C11 (spec/QtlRotation.tla, event "Fatal"): a synchronous Logger with one or
// more file sinks logs some messages through Qt's logging API and then a FATAL one; Qt aborts the process
// when the message handler returns.  The libc interposer reports every call on the log directories, so the
// parent sees which bytes reached which file before the process died; after the death it lists the files.
//
//   drv_fatal <scenario.json>
#include <QCoreApplication>
#include <QDir>
#include <QFile>
#include <QJsonArray>
#include <QJsonDocument>
#include <QJsonObject>

#include <dirent.h>
#include <fcntl.h>
#include <sys/stat.h>
#include <unistd.h>

#include <iostream>
#include <map>
#include <atomic>
#include <chrono>
#include <thread>

#include "filters/functionfilter.h"
#include "logger.h"
#include "pipeline.h"
#include "sortedpipeline.h"
#include "sinks/filesink.h"
#include "sinks/rotatingfilesink.h"
#include "vfs.h"

using namespace QtLogger;

namespace {

void emitLine(const QJsonObject &o)
{
    QByteArray b = QJsonDocument(o).toJson(QJsonDocument::Compact);
    b.append('\n');
    vfs::realWrite(1, b.constData(), (unsigned long)b.size());
}

QJsonArray listTree(const std::string &root, const QStringList &subs)
{
    vfs::setQuiet(true);
    QJsonArray out;
    for (const QString &sub : subs) {
        const std::string dir = root + "/" + sub.toStdString();
        DIR *d = opendir(dir.c_str());
        if (!d)
            continue;
        std::map<std::string, bool> names;
        while (struct dirent *e = readdir(d)) {
            std::string n = e->d_name;
            if (n != "." && n != "..")
                names[n] = true;
        }
        closedir(d);
        for (const auto &kv : names) {
            const std::string p = dir + "/" + kv.first;
            struct stat st;
            if (lstat(p.c_str(), &st) != 0 || !S_ISREG(st.st_mode))
                continue;
            QJsonObject f;
            f["sub"] = sub;
            f["name"] = QString::fromStdString(kv.first);
            f["size"] = (double)st.st_size;
            f["mt"] = (double)((long long)st.st_mtim.tv_sec * 1000 + st.st_mtim.tv_nsec / 1000000);
            QByteArray content;
            int fd = ::open(p.c_str(), O_RDONLY);
            if (fd >= 0) {
                char buf[65536];
                ssize_t r;
                while ((r = ::read(fd, buf, sizeof buf)) > 0)
                    content.append(buf, int(r));
                ::close(fd);
            }
            f["b64"] = QString::fromLatin1(content.toBase64());
            out.append(f);
        }
    }
    vfs::setQuiet(false);
    return out;
}

void sysEvent(const vfs::Event &ev)
{
    QJsonObject o;
    o["e"] = "Sys";
    o["c"] = ev.call;
    o["f"] = QString::fromStdString(ev.path);
    if (!ev.path2.empty())
        o["t"] = QString::fromStdString(ev.path2);
    if (ev.mode[0])
        o["m"] = ev.mode;
    if (!strcmp(ev.call, "write"))
        o["n"] = (double)ev.n;
    o["ok"] = ev.ok;
    emitLine(o);
}

// a sink of the user's own whose flush() reports failure (a full device, a closed socket ...): the other sinks
// of the pipeline must be flushed all the same
class BadFlushSink : public Sink
{
public:
    void send(const LogMessage &) override { }
    bool flush() override { return false; }
};

// a slow sink of the user's own, last in the walk: the flush() of the housekeeping thread stays inside it (a network
// round trip, a device that does not answer) while the rest of the program goes on logging.  By then that walk has
// passed every file sink; the flush after a fatal message must not count on it.
class StallFlushSink : public Sink
{
public:
    std::atomic<bool> entered { false };
    std::thread::id stallThread;
    void send(const LogMessage &) override { }
    bool flush() override
    {
        if (std::this_thread::get_id() == stallThread) {
            entered.store(true);
            for (;;)
                std::this_thread::sleep_for(std::chrono::seconds(1));
        }
        return true;
    }
};

void logOne(QtMsgType type, const QString &text)
{
    const QByteArray u = text.toUtf8();
    QMessageLogger ml("src/fatal.cpp", 42, "void run()", "default");
    if (type == QtFatalMsg)
        ml.fatal("%s", u.constData());
    else if (type == QtWarningMsg)
        ml.warning("%s", u.constData());
    else
        ml.debug("%s", u.constData());
}

} // namespace

int main(int argc, char **argv)
{
    setenv("TZ", "UTC", 1);
    QCoreApplication app(argc, argv);
    if (argc < 2)
        return 2;
    QFile in(QString::fromLocal8Bit(argv[1]));
    if (!in.open(QIODevice::ReadOnly))
        return 2;
    const QJsonObject scn = QJsonDocument::fromJson(in.readAll()).object();
    in.close();

    const std::string root = scn["root"].toString().toStdString();
    const QJsonArray sinks = scn["sinks"].toArray();
    const QString config = scn["config"].toString();
    QStringList subs;
    for (const auto &v : sinks)
        subs << v.toObject()["sub"].toString();

    QDir(QString::fromStdString(root)).removeRecursively();
    for (const QString &s : subs)
        QDir().mkpath(QString::fromStdString(root) + "/" + s);

    vfs::setRoot(root);
    vfs::setCallback(sysEvent);
    vfs::setNowMs((long long)scn["now"].toDouble());

    {
        QJsonObject o;
        o["e"] = "Reset";
        o["list"] = listTree(root, subs);
        emitLine(o);
    }
    {
        QJsonObject o;
        o["e"] = "Begin";
        o["op"] = "ctor";
        emitLine(o);
    }
    Logger logger;
    auto makeSink = [&](const QJsonObject &s) -> SinkPtr {
        const QString path = QString::fromStdString(root) + "/" + s["sub"].toString() + "/" + s["file"].toString();
        if (s["kind"].toString() == "file")
            return FileSinkPtr::create(path);
        return RotatingFileSinkPtr::create(path, s["L"].toInt(), s["N"].toInt(), RotatingFileSink::Options(s["opts"].toInt()));
    };
    const int filtered = scn["filtered"].toInt(-1);          // this sink sits behind a filter that rejects the fatal message
    const QString fatalPrefix = scn["fatalPrefix"].toString();
    auto gate = [&]() -> HandlerPtr {
        return FunctionFilterPtr::create([fatalPrefix](const LogMessage &m) { return !m.message().startsWith(fatalPrefix); });
    };
    // "bgbusy": another thread is INSIDE the pipeline - and so holds the logger's mutex - for longer than any timeout a
    // logging call could reasonably use when the fatal message arrives; the fatal call has to wait for it.  The busy
    // handler comes first and keeps its marker message away from the sinks.
    static std::atomic<bool> busyEntered { false };
    const int busyMs = scn["bgbusy"].toInt(0);
    if (busyMs > 0 && config != "oneline") {
        logger << FunctionFilterPtr::create([busyMs](const LogMessage &m) {
            if (!m.message().startsWith(QLatin1String("busy:")))
                return true;
            busyEntered.store(true);
            std::this_thread::sleep_for(std::chrono::milliseconds(busyMs));
            return false;
        });
    }
    if (config == "oneline") {
        const QJsonObject s = sinks.at(0).toObject();
        const QString path = QString::fromStdString(root) + "/" + s["sub"].toString() + "/" + s["file"].toString();
        // installs the message handler itself; console output of the child goes to /dev/null
        logger.configure(path, s["L"].toInt(), s["N"].toInt(), RotatingFileSink::Options(s["opts"].toInt()), /*async*/ false);
    } else if (config == "wrapped") {
        // every sink inside a child container of its own kind: the pipeline classes other than SimplePipeline
        // (plain Pipeline, SortedPipeline) can be children as well, at any depth
        if (scn["badflush"].toBool())
            logger << SinkPtr(new BadFlushSink);
        for (int i = 0; i < sinks.size(); ++i) {
            const QJsonObject so = sinks.at(i).toObject();
            const QString wrap = so["wrap"].toString();
            const SinkPtr sink = makeSink(so);
            // (a filter that rejects the fatal message goes in front of the sink, inside the same container)
            auto fill = [&](Pipeline &p) {
                if (i == filtered)
                    p.append(gate());
                p.append(sink);
            };
            if (wrap == "plain" || wrap == "plain-scoped") {
                auto pp = PipelinePtr::create(wrap == "plain-scoped" || i == filtered);
                fill(*pp);
                logger << pp;
            } else if (wrap == "sorted") {
                auto sp = SortedPipelinePtr::create();
                fill(*sp);
                auto outer = PipelinePtr::create(true);      // scoped, so that a filter inside stops only this branch
                outer->append(sp);
                logger << outer;
            } else if (wrap == "plain-in-fluent") {
                SimplePipeline &child = logger.pipeline();
                auto pp = PipelinePtr::create(false);
                fill(*pp);
                child << pp;
            } else if (wrap == "fluent-in-plain") {
                auto inner = QSharedPointer<SimplePipeline>::create(true);
                fill(*inner);
                logger << PipelinePtr::create(std::initializer_list<HandlerPtr> { inner });
            } else {
                fill(logger.pipeline());
            }
        }
        logger.installMessageHandler();
    } else if (config == "nested") {
        // every sink in its own scoped sub-pipeline, the last one nested one level deeper
        SimplePipeline *p = &logger;
        if (scn["badflush"].toBool())
            p->pipeline().append(SinkPtr(new BadFlushSink));
        for (int i = 0; i < sinks.size(); ++i) {
            SimplePipeline &child = p->pipeline();
            if (i == filtered)
                child.append(gate());
            child.append(makeSink(sinks.at(i).toObject()));
            if (i == sinks.size() - 2)
                p = &child;
        }
        logger.installMessageHandler();
    } else {
        if (scn["badflush"].toBool())
            logger << SinkPtr(new BadFlushSink);
        for (int i = 0; i < sinks.size(); ++i) {
            if (i == filtered) {
                SimplePipeline &child = logger.pipeline();
                child.append(gate());
                child.append(makeSink(sinks.at(i).toObject()));
            } else {
                logger << makeSink(sinks.at(i).toObject());
            }
        }
        logger.installMessageHandler();
    }
    std::thread bg;
    if (scn["bgflush"].toBool() && config != "oneline") {
        auto stall = QSharedPointer<StallFlushSink>::create();
        logger << stall;
        bg = std::thread([&logger, stall] {
            stall->stallThread = std::this_thread::get_id();
            logger.flush();
        });
        // (a walk that never gets to the last sink is not waited for: what matters is what the files hold in the end)
        for (int i = 0; i < 3000 && !stall->entered.load(); ++i)
            std::this_thread::sleep_for(std::chrono::milliseconds(1));
        bg.detach();
    }
    {
        QJsonObject o;
        o["e"] = "End";
        o["list"] = listTree(root, subs);
        emitLine(o);
    }

    const QJsonArray msgs = scn["msgs"].toArray();
    for (int i = 0; i < msgs.size(); ++i) {
        QJsonObject b;
        b["e"] = "Begin";
        b["op"] = "send";
        b["i"] = i;
        emitLine(b);
        logOne(i % 3 == 2 ? QtWarningMsg : QtDebugMsg, QString::fromUtf8(QByteArray::fromBase64(msgs.at(i).toString().toLatin1())));
        QJsonObject e;
        e["e"] = "End";
        if (scn["listEvery"].toBool() || i == msgs.size() - 1)
            e["list"] = listTree(root, subs);
        emitLine(e);
    }
    {
        QJsonObject b;
        b["e"] = "Begin";
        b["op"] = "send";
        b["i"] = msgs.size();
        b["fatal"] = true;
        emitLine(b);
    }
    if (busyMs > 0 && config != "oneline") {
        std::thread busy([] { logOne(QtDebugMsg, QStringLiteral("busy:marker")); });
        for (int i = 0; i < 3000 && !busyEntered.load(); ++i)
            std::this_thread::sleep_for(std::chrono::milliseconds(1));
        busy.detach();
    }
    const QString fatalText = QString::fromUtf8(QByteArray::fromBase64(scn["fatal"].toString().toLatin1()));
    if (scn["fatalThread"].toString() == "thread") {
        std::thread t([&] { logOne(QtFatalMsg, fatalText); });
        t.join();
    } else {
        logOne(QtFatalMsg, fatalText);
    }
    // not reached: Qt aborts after the handler returned
    QJsonObject o;
    o["e"] = "Survived";
    emitLine(o);
    return 0;
}
