// Lifecycle child for spec/QtlThreads.tla (property C04): ONE process per stop path.
//
//   drv_lifecycle <path> <producers> <msgs> <sinkDelayUs> <jitter> <seed> <late>
//
// paths:  quit      application quit: exec() + quit(); aboutToQuit stops the logger; singleton destroyed at exit
//         reset     explicit resetOwnThread(), then normal exit
//         dtorlive  a Logger object destroyed while the application object is alive
//         cycle     move / reset / move / reset, then normal exit
//         noexec    the application object is destroyed without exec() while the logger is asynchronous,
//                   the singleton's destructor then has to stop it          (outside the safe environment)
//         noapp     no application object at all                            (outside the safe environment)
// late = 1: one producer keeps logging while (and after) the logger is being stopped.
// The event stream is the one of drv_threads plus {"e":"App","op":...} for the life of the application
// object; "Finished" is emitted from an atexit handler registered before the singleton exists, i.e. after
// the singleton's destructor has run.
#include <QCoreApplication>
#include <QTimer>

#include <iostream>
#include <memory>
#include <vector>

#include "attrhandlers/seqnumberattr.h"
#include "logger.h"
#include "thr_common.h"

using namespace thr;

namespace {

Probes *g_probes = nullptr;
int g_total = 0;
bool g_finalOp = false;

void emitOp(const char *op, const char *ph, const char *by = "M")
{
    QJsonObject o;
    o["e"] = "Op";
    o["t"] = by;
    o["op"] = op;
    o["ph"] = ph;
    emitLine(o);
}

void emitApp(const char *op)
{
    QJsonObject o;
    o["e"] = "App";
    o["t"] = "M";
    o["op"] = op;
    emitLine(o);
}

void finalHandler()
{
    // runs after the destructor of Logger::instance()'s holder
    if (g_finalOp)
        emitOp("reset", "end");
    QJsonObject o;
    o["e"] = "Finished";
    o["total"] = g_total;
    emitLine(o);
    Verif::pointFn().store(nullptr, std::memory_order_release);
}

void produce(int p, int nmsg, int firstIndex)
{
    const std::string me = "p" + std::to_string(p);
    t_tag = me;
    t_rngInit = false;
    const QString tid = QString::number(quint64(reinterpret_cast<quintptr>(QThread::currentThreadId())));
    for (int i = firstIndex; i < firstIndex + nmsg; ++i) {
        const QString text = QStringLiteral("%1:%2:payload").arg(QString::fromStdString(me)).arg(i);
        static const char *file = "src/life.cpp";
        static const char *func = "void life()";
        static const char *cat = "life";
        QJsonObject f;
        f["type"] = "debug";
        f["text"] = text;
        f["file"] = file;
        f["line"] = 100 * p + i;
        f["func"] = func;
        f["cat"] = cat;
        f["tid"] = tid;
        f["pre"] = 0;
        f["fmt"] = QString();
        QJsonObject b;
        b["e"] = "CallBegin";
        b["t"] = QString::fromStdString(me);
        b["m"] = msgId(text);
        b["f"] = f;
        b["ms"] = nowRelMs();
        emitLine(b);
        jitter();
        QMessageLogger(file, 100 * p + i, func, cat).debug("%s", text.toUtf8().constData());
        QJsonObject e;
        e["e"] = "CallEnd";
        e["t"] = QString::fromStdString(me);
        e["m"] = msgId(text);
        e["ms"] = nowRelMs();
        emitLine(e);
        jitter();
    }
}

} // namespace

int main(int argc, char **argv)
{
    if (argc < 8) {
        std::cerr << "usage: drv_lifecycle <path> <producers> <msgs> <sinkDelayUs> <jitter> <seed> <late>\n";
        return 2;
    }
    const std::string path = argv[1];
    const int nprod = atoi(argv[2]);
    const int nmsg = atoi(argv[3]);
    const int delay = atoi(argv[4]);
    g_jitter = atoi(argv[5]);
    g_seed = unsigned(atoi(argv[6]));
    const bool late = atoi(argv[7]) != 0;
    g_wall0 = std::chrono::system_clock::now();
    signal(SIGSEGV, crashHandler);
    signal(SIGBUS, crashHandler);
    signal(SIGABRT, crashHandler);
    t_tag = "M";
    g_total = nprod * nmsg + (late ? nmsg : 0);

    {
        QJsonObject o;
        o["e"] = "Reset";
        o["path"] = QString::fromStdString(path);
        emitLine(o);
    }
    atexit(finalHandler);                        // before the singleton exists => runs after its destructor
    Verif::pointFn().store(pointCb, std::memory_order_release);

    static Probes probes;                        // must outlive the singleton's pipeline
    g_probes = &probes;
    probes.sinkDelayUs = delay;

    std::unique_ptr<QCoreApplication> app;
    if (path != "noapp") {
        app.reset(new QCoreApplication(argc, argv));
        emitApp("appCreate");
    }

    const bool local = path == "dtorlive" || path == "dtorquit" || path == "dtorspin";
    std::unique_ptr<Logger> localLogger;
    Logger *lg = nullptr;
    if (local) {
        localLogger.reset(new Logger);
        lg = localLogger.get();
    } else {
        lg = Logger::instance();
    }
    *lg << probes.enter() << SeqNumberAttrPtr::create() << probes.sink() << probes.exit();
    lg->installMessageHandler();

    if (app) {
        // runs before the library's own aboutToQuit connection (made in moveToOwnThread)
        QObject::connect(app.get(), &QCoreApplication::aboutToQuit, [lg, &localLogger, local] {
            if (local && !localLogger)
                return;                                      // the logger is gone already
            if (lg->ownThread())
                emitOp("reset", "begin");
        });
    }
    if (path == "quit2") {
        // asynchronous logging is switched on from a thread that is not the main thread and runs no event loop
        // ("can be called from any thread"); the application's quit must stop and drain all the same
        std::thread other([lg] {
            t_tag = "S2";
            emitOp("move", "begin", "S2");
            lg->moveToOwnThread();
            emitOp("move", "end", "S2");
        });
        other.join();
        t_tag = "M";
    } else {
        emitOp("move", "begin");
        lg->moveToOwnThread();
        emitOp("move", "end");
    }
    bool quitOpOpen = false;
    if (app) {
        // ... and this one after it
        QObject::connect(app.get(), &QCoreApplication::aboutToQuit, [&quitOpOpen] {
            if (quitOpOpen)
                emitOp("reset", "end");
        });
    }

    std::vector<std::thread> threads;
    for (int p = 1; p <= nprod; ++p)
        threads.emplace_back(produce, p, nmsg, 1);
    std::thread lateThread;
    if (late)
        lateThread = std::thread(produce, nprod + 1, nmsg, 1);
    for (auto &t : threads)
        t.join();

    if (path == "quit" || path == "quit2") {
        emitApp("execQuit");
        quitOpOpen = true;
        QTimer::singleShot(0, app.get(), &QCoreApplication::quit);
        app->exec();
        quitOpOpen = false;
    } else if (path == "reset") {
        emitOp("reset", "begin");
        lg->resetOwnThread();
        emitOp("reset", "end");
    } else if (path == "cycle") {
        emitOp("reset", "begin");
        lg->resetOwnThread();
        emitOp("reset", "end");
        emitOp("move", "begin");
        lg->moveToOwnThread();
        emitOp("move", "end");
        produce(nprod + 2, nmsg, 1);
        g_total += nmsg;
        t_tag = "M";
        emitOp("reset", "begin");
        lg->resetOwnThread();
        emitOp("reset", "end");
    } else if (local) {
        emitOp("reset", "begin");
        Logger::restorePreviousMessageHandler();
        localLogger.reset();
        emitOp("reset", "end");
        emitApp("free");
        if (path == "dtorspin") {
            // the event loop gets a chance to delete the stopped thread object
            QCoreApplication::processEvents();
            QCoreApplication::sendPostedEvents(nullptr, QEvent::DeferredDelete);
            emitApp("spin");
        }
        if (path != "dtorlive") {
            // (dtorquit: the application quits before the event loop has deleted the stopped thread object)
            emitApp("execQuit");
            QTimer::singleShot(0, app.get(), &QCoreApplication::quit);
            app->exec();
        }
    } else if (path == "cyclequit") {
        emitOp("reset", "begin");
        lg->resetOwnThread();
        emitOp("reset", "end");
        emitOp("move", "begin");
        lg->moveToOwnThread();
        emitOp("move", "end");
        // the library's hook of the second thread object is connected now, so the "end" marker must follow it
        bool secondOpen = false;
        QObject::connect(app.get(), &QCoreApplication::aboutToQuit, [&secondOpen] {
            if (secondOpen)
                emitOp("reset", "end");
        });
        produce(nprod + 2, nmsg, 1);
        g_total += nmsg;
        t_tag = "M";
        emitApp("execQuit");
        secondOpen = true;
        QTimer::singleShot(0, app.get(), &QCoreApplication::quit);
        app->exec();
        secondOpen = false;
    }
    if (lateThread.joinable())
        lateThread.join();
    if (app) {
        emitApp("appDestroy");
        app.reset();
    }
    if (!local) {
        // the singleton's destructor stops the logger after main() has returned
        emitOp("reset", "begin");
        g_finalOp = true;
    }
    return 0;
}
