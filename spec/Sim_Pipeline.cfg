SPECIFICATION MCSpec
CONSTANTS NP = 3
          MaxItems = 9
          MaxMsgs = 3
          MenuName = "full"
INVARIANT Agree
INVARIANT SinkTextRule
PROPERTY ChildNeverStopsParent
PROPERTY ScopedInvisible
PROPERTY RejectionIsLocal
PROPERTY SeqMonotone
CHECK_DEADLOCK FALSE
