--------------------------- MODULE Trace_Pattern ---------------------------
(* Validation of recorded PatternFormatter results against QtlPattern: every event is one case - the token
   list (with the values the placeholders stand for), the message type and what the real formatter returned. *)
EXTENDS QtlPattern, Json, IOUtils

TraceLog == ndJsonDeserialize(IOEnv.TRACE)
VARIABLE l

TInit == l = 1
TCase ==
    /\ l <= Len(TraceLog)
    /\ TraceLog[l].e = "Case"
    /\ Format(TraceLog[l].tokens, TraceLog[l].type) = TraceLog[l].out
    /\ ("sig" \in DOMAIN TraceLog[l]) => (CleanFunc(TraceLog[l].sig) = TraceLog[l].clean)
    /\ l' = l + 1
TraceSpec == TInit /\ [][TCase]_l
TraceAccepted ==
    LET d == TLCGet("stats").diameter
    IN  /\ PrintT(<<"TRACE_MATCHED", d - 1, Len(TraceLog)>>)
        /\ d - 1 = Len(TraceLog)
=============================================================================
