SPECIFICATION MCFairSpec
CONSTANTS Producers = {"p1", "p2"}
          Stoppers = {"M"}
          UseLogger = FALSE
          RecheckThread = TRUE
          SafeEnv = TRUE
          Locks = TRUE
          RealTime = TRUE
          Disconnect = TRUE
          FatalEvery = 0
          NMsgs = 2
          ScriptSet = {"reset"}
          Script2Set = {"none"}
INVARIANT TypeOK
INVARIANT MutualExclusion
INVARIANT NoDoubleDelivery
INVARIANT SeqConsecutive
INVARIANT ProducerOrder
INVARIANT SyncDeliveredOnReturn
INVARIANT WorkerOnly
INVARIANT AsyncOrder
INVARIANT RealTimeOrder
INVARIANT LateMessagesSync
INVARIANT DrainBeforeStop
INVARIANT NoUseAfterFree
INVARIANT AllDeliveredAtEnd
PROPERTY ResetTerminates
CHECK_DEADLOCK FALSE
