------------------------------- MODULE MC_Env -------------------------------
(* Exhaustive check of QtlEnv on two application identities, two versions and three handler slots, with at most
   MaxFresh generated UUIDs and MaxWipes wipes per identity (the counters are the only unbounded parts). *)
EXTENDS QtlEnv
CONSTANTS MaxFresh, MaxWipes
Bound == fresh <= MaxFresh /\ \A a \in Apps : epoch[a] <= MaxWipes
\* a deliberately wrong reading of the documentation, used as a witness that the exhaustive run is not vacuous:
\* "one UUID per installation, whatever the application is called" does NOT hold - the settings are per identity
OneUuidPerUser == \A x, y \in issued : x.uuid = y.uuid
=============================================================================
