SPECIFICATION Spec
CONSTANTS MaxLen = 5
          MaxW = 7
          MaxTok = 5
