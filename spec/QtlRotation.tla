------------------------------ MODULE QtlRotation ------------------------------
(***************************************************************************)
(* The file sinks of qtlogger: FileSink (sinks/filesink.cpp, QFile's write *)
(* buffer) and RotatingFileSink (sinks/rotatingfilesink.cpp) on top of a   *)
(* model of the directory.  Properties C05 C06 C07 C08 C09 C10 (and the    *)
(* file half of C11).                                                      *)
(*                                                                         *)
(* Shape: the sink is a program-counter machine.  Every libc call the code *)
(* makes on the log directory that changes or opens something (open,       *)
(* write, close, rename, unlink) is ONE step with a label; everything in   *)
(* between (the date / size checks, picking the rotated name, sorting the  *)
(* retention victims) is an internal step.  A crash is possible between    *)
(* any two steps, a fault is a labelled step taking its failure branch.    *)
(* The conformance harness interposes exactly these libc calls, so a       *)
(* recorded execution is a sequence of labels the machine can or cannot    *)
(* follow (Trace_Rotation.tla).                                            *)
(*                                                                         *)
(* Names are 4-tuples of integers:  <<0,0,0,0>> the active file,           *)
(* <<1,day,idx,z>> a file following the rotated-name scheme                *)
(* base.<day>.<idx>.suffix[.gz] (z = 1 for .gz), <<2,i,0,0>> any other     *)
(* file in the directory (never to be touched).  Times are <<day, tick>>.  *)
(* Records are numbers; g.rlen / g.rday give their byte length (with the   *)
(* newline) and the calendar day they were logged on.                      *)
(***************************************************************************)
EXTENDS Integers, Sequences, FiniteSets, SequencesExt, TLC

CONSTANT BufCap          \* QFile's write buffer: 16384 bytes in Qt 5.15 (small in exhaustive runs)

VARIABLES cfg,           \* [L, N, startup, daily, gz]  constructor arguments of the sink
          dir,           \* the directory: name -> [st, recs, mt, h]
          sk,            \* the sink object / process
          now,           \* wall clock <<day, tick>>
          g              \* ghosts (history, bookkeeping for the properties)

vars == <<cfg, dir, sk, now, g>>

ACTIVE == <<0, 0, 0, 0>>
Rot(d, i, z) == <<1, d, i, z>>
GzOf(n) == <<1, n[2], n[3], 1>>
IsRot(n) == n[1] = 1
IsForeign(n) == n[1] = 2
NONE == <<9, 0, 0, 0>>

TLess(a, b) == a[1] < b[1] \/ (a[1] = b[1] /\ a[2] < b[2])

\* Times are absolute (they only move forward); the CALENDAR day the program sees is the day of the time in the
\* current time zone.  G.tz is the zone's offset in whole days (0 at the start; the environment may move the
\* process into another zone - ShiftZone - so that the local date goes back while time goes on).
LD(G, t) == t[1] + G.tz

\* file states: "plain" whole records; "gz" complete gzip member; "gzw" compressed file being written
\* (or left behind unfinished by a crash); "foreign"; "special" a directory (or other non-regular file)
\* that happens to carry a rotated name - invisible to QDir::Files, but QFile::exists() sees it
File(st, recs, mt, h) == [st |-> st, recs |-> recs, mt |-> mt, h |-> h]

SumLen(G, recs) == FoldLeft(LAMBDA a, r : a + G.rlen[r], 0, recs)
RecSet(recs) == {recs[i] : i \in 1..Len(recs)}

Dead == [alive |-> FALSE, open |-> FALSE, buf |-> <<>>, inited |-> FALSE, curDay |-> -1, pc |-> "dead",
         msg |-> 0, trig |-> "", rn |-> NONE, vict |-> <<>>, inClosed |-> FALSE, wrote |-> FALSE,
         inOpen |-> FALSE, outOpen |-> FALSE, outClosed |-> FALSE,
         early |-> FALSE]     \* (trace validation only) the size check of this send rotates although the limit is not reached

---------------------------------------------------------------------------
\* Ordering used by retention (removeOldFiles / findRotatedFiles): modification time, ties broken by
\* the rotation order the names themselves carry (day, numeric index, plain before gz).
RetLess(D, a, b) ==
    \/ TLess(D[a].mt, D[b].mt)
    \/ /\ D[a].mt = D[b].mt
       /\ \/ a[2] < b[2]
          \/ a[2] = b[2] /\ a[3] < b[3]
          \/ a[2] = b[2] /\ a[3] = b[3] /\ a[4] < b[4]

RotNames(D) == {n \in DOMAIN D : IsRot(n) /\ D[n].st # "special"}

\* rotated names, oldest first
RECURSIVE SortRet(_, _)
SortRet(D, ns) ==
    IF ns = {} THEN <<>>
    ELSE LET m == CHOOSE x \in ns : \A y \in ns \ {x} : RetLess(D, x, y)
         IN  <<m>> \o SortRet(D, ns \ {m})

NextIdx(D, d) ==
    LET is == {n[3] : n \in {x \in RotNames(D) : x[2] = d}}
    IN  IF is = {} THEN 1 ELSE 1 + CHOOSE i \in is : \A j \in is : j <= i

DiskSize(S, n) == IF n \in DOMAIN S.dir THEN SumLen(S.g, S.dir[n].recs) ELSE 0
\* QFile::size() on the open active file: the code flushes first, so this is what is on disk plus what
\* is buffered (the same number for an implementation that counts bytes instead of flushing)
ActSize(S) == DiskSize(S, ACTIVE) + SumLen(S.g, S.sk.buf)

Without(D, n) == [x \in (DOMAIN D) \ {n} |-> D[x]]
With(D, n, f) == [x \in (DOMAIN D) \cup {n} |-> IF x = n THEN f ELSE D[x]]

---------------------------------------------------------------------------
\* The machine.  S = [dir, sk, g]; C = cfg; T = now.

FlushNext(pc) ==
    CASE pc = "startupF" -> "startupC" [] pc = "dailyF" -> "dailyC" [] pc = "sizeF" -> "sizeC"
      [] pc = "rotF" -> "rotClose" [] pc = "appF" -> "appW" [] pc = "flushOp" -> "idle"
      [] pc = "destroyF" -> "destroyClose"
IsFlushPc(pc) == pc \in {"startupF", "dailyF", "sizeF", "rotF", "appF", "flushOp", "destroyF"}

AfterRot(S, T) ==          \* what the caller of rotate() does next
    CASE S.sk.trig = "startup" -> [S EXCEPT !.sk.pc = "daily"]
      [] S.sk.trig = "daily"   -> [S EXCEPT !.sk.curDay = S.g.rday[S.sk.msg], !.sk.pc = "size"]
      [] S.sk.trig = "size"    -> [S EXCEPT !.sk.pc = "app"]

\* does the machine make a libc call next?  (otherwise the next step is internal, or it is at rest)
AtRest(S) == S.sk.pc \in {"idle", "dead"}

NeedsSys(S) ==
    LET pc == S.sk.pc IN
    \/ IsFlushPc(pc) /\ S.sk.buf # <<>> /\ S.sk.open
    \/ pc = "appW" /\ S.g.rlen[S.sk.msg] > BufCap /\ S.sk.open
    \/ pc \in {"ctor", "destroyClose", "rotClose", "rotRename", "cpOpenSrc", "cpOpenDst", "cpCloseSrc",
               "gzOpenIn", "gzOpenOut", "gzCloseIn", "gzBody", "gzUnlink", "gzAny", "reopen"}
    \/ pc = "retU" /\ S.sk.vict # <<>>

\* one internal step
DoInt(S, C, T) ==
    LET pc == S.sk.pc
        m  == S.sk.msg
    IN
    CASE IsFlushPc(pc) -> [S EXCEPT !.sk.pc = FlushNext(pc)]                     \* nothing buffered
      [] pc = "init" ->
            IF S.sk.inited THEN [S EXCEPT !.sk.pc = "daily"]
            ELSE [S EXCEPT !.sk.inited = TRUE,
                           !.sk.curDay = IF DiskSize(S, ACTIVE) > 0 THEN LD(S.g, S.dir[ACTIVE].mt) ELSE LD(S.g, T),
                           !.sk.pc = IF C.startup THEN "startupF" ELSE "daily"]
      [] pc = "startupC" ->
            IF ActSize(S) > 0 THEN [S EXCEPT !.sk.trig = "startup", !.sk.pc = "rot"]
            ELSE [S EXCEPT !.sk.pc = "daily"]
      [] pc = "daily" ->
            IF C.daily /\ S.g.rday[m] # S.sk.curDay THEN [S EXCEPT !.sk.pc = "dailyF"]
            ELSE [S EXCEPT !.sk.pc = "size"]
      [] pc = "dailyC" ->
            IF ActSize(S) > 0 THEN [S EXCEPT !.sk.trig = "daily", !.sk.pc = "rot"]
            ELSE [S EXCEPT !.sk.pc = "size"]
      [] pc = "size" -> [S EXCEPT !.sk.pc = IF C.L > 0 THEN "sizeF" ELSE "app"]
      [] pc = "sizeC" ->
            IF ActSize(S) > 0 /\ (S.sk.early \/ ActSize(S) + S.g.rlen[m] > C.L)
            THEN [S EXCEPT !.sk.trig = "size", !.sk.pc = "rot", !.sk.early = FALSE]
            ELSE [S EXCEPT !.sk.pc = "app", !.sk.early = FALSE]
      [] pc = "app" ->
            [S EXCEPT !.sk.pc = IF SumLen(S.g, S.sk.buf) + S.g.rlen[m] > BufCap THEN "appF" ELSE "appW"]
      [] pc = "appW" ->                                                          \* goes into the buffer
            [S EXCEPT !.sk.buf = IF S.sk.open THEN Append(@, m) ELSE @,
                      !.g.hist = Append(@, m), !.sk.msg = 0, !.sk.pc = "idle"]
      [] pc = "rot" ->
            IF C.N = 1 THEN AfterRot(S, T) ELSE [S EXCEPT !.sk.pc = "rotF"]
      [] pc = "rotPick" ->
            LET d == IF S.sk.curDay >= 0 THEN S.sk.curDay ELSE LD(S.g, T)
                rn == Rot(d, NextIdx(S.dir, d), 0)
            IN  IF rn \in DOMAIN S.dir                      \* QFile::rename: "destination file exists"
                THEN [S EXCEPT !.sk.rn = rn, !.g.faulted = TRUE, !.sk.pc = "ret"]
                ELSE [S EXCEPT !.sk.rn = rn, !.sk.pc = "rotRename"]
      [] pc = "ret" ->
            IF C.N <= 0 THEN [S EXCEPT !.sk.pc = "reopen"]
            ELSE LET sorted == SortRet(S.dir, RotNames(S.dir))
                     k == Len(sorted) - (C.N - 1)
                 IN  [S EXCEPT !.sk.vict = IF k > 0 THEN SubSeq(sorted, 1, k) ELSE <<>>, !.sk.pc = "retU"]
      [] pc = "retU" -> [S EXCEPT !.sk.pc = "reopen"]                            \* no victim left
      [] pc = "setDay" -> AfterRot([S EXCEPT !.sk.curDay = LD(S.g, T)], T)

\* the labels of the libc calls the machine may make next: [c, f, t, m]
Lab(c, f, t, m) == [c |-> c, f |-> f, t |-> t, m |-> m]

\* The compression step as an observer may see it (trace validation): which of the two files is opened or
\* closed first is the implementation's business; what is not, is that the compressed file is created after the
\* rename, that it is complete (closed) before the original is deleted, and that the original is what it holds.
GzAnyLabels(S) ==
    LET rn == S.sk.rn
        gz == GzOf(S.sk.rn)
    IN  (IF ~S.sk.inOpen /\ ~S.sk.inClosed THEN {Lab("open", rn, NONE, "rd")} ELSE {})
        \cup (IF S.sk.inOpen /\ ~S.sk.inClosed THEN {Lab("close", rn, NONE, "")} ELSE {})
        \cup (IF ~S.sk.outOpen THEN {Lab("open", gz, NONE, "trunc")} ELSE {})
        \cup (IF S.sk.outOpen /\ ~S.sk.outClosed THEN {Lab("write", gz, NONE, "")} ELSE {})
        \cup (IF S.sk.outOpen /\ ~S.sk.outClosed /\ S.sk.wrote /\ S.sk.inOpen THEN {Lab("close", gz, NONE, "")} ELSE {})
        \cup (IF gz \in DOMAIN S.dir /\ S.dir[gz].st = "gz" /\ S.sk.outClosed THEN {Lab("unlink", rn, NONE, "")} ELSE {})
GzAnyQuiet(S) == (S.sk.inOpen => S.sk.inClosed) /\ (S.sk.outOpen => S.sk.outClosed)

SysLabels(S) ==
    LET pc == S.sk.pc IN
    CASE IsFlushPc(pc) \/ pc = "appW" -> {Lab("write", ACTIVE, NONE, "")}
      [] pc = "ctor" \/ pc = "reopen" -> {Lab("open", ACTIVE, NONE, "append")}
      [] pc = "destroyClose" \/ pc = "rotClose" \/ pc = "cpCloseSrc" -> {Lab("close", ACTIVE, NONE, "")}
      [] pc = "rotRename" -> {Lab("rename", ACTIVE, S.sk.rn, "")}
      [] pc = "cpOpenSrc" -> {Lab("open", ACTIVE, NONE, "rd")}
      [] pc = "cpOpenDst" -> {Lab("open", S.sk.rn, NONE, "trunc")}
      [] pc = "gzOpenIn" -> {Lab("open", S.sk.rn, NONE, "rd")}
      [] pc = "gzOpenOut" -> {Lab("open", GzOf(S.sk.rn), NONE, "trunc")}
      [] pc = "gzCloseIn" -> {Lab("close", S.sk.rn, NONE, "")}
      [] pc = "gzBody" -> {Lab("write", GzOf(S.sk.rn), NONE, "")}
                          \cup (IF S.sk.inClosed THEN {} ELSE {Lab("close", S.sk.rn, NONE, "")})
                          \cup (IF S.sk.inClosed /\ S.sk.wrote THEN {Lab("close", GzOf(S.sk.rn), NONE, "")} ELSE {})
      [] pc = "gzUnlink" -> {Lab("unlink", S.sk.rn, NONE, "")}
      [] pc = "gzAny" -> GzAnyLabels(S)
      [] pc = "retU" -> {Lab("unlink", Head(S.sk.vict), NONE, "")}

\* may this call fail in the modelled fault set?  (rename, creating the rotated copy / the compressed
\* file, opening the rotated file for reading, deleting)
MayFail(S, lab) ==
    \/ lab.c \in {"rename", "unlink"}
    \/ lab.c = "open" /\ lab.m \in {"trunc", "rd"} /\ lab.f # ACTIVE

\* the machine after the call `lab` returned (ok = it succeeded)
DoSys(S, C, T, lab, ok) ==
    LET pc == S.sk.pc
        m  == S.sk.msg
        rn == S.sk.rn
    IN
    CASE IsFlushPc(pc) ->
            \* QFile::flush(): one write() of the whole buffer
            [S EXCEPT !.dir[ACTIVE].recs = @ \o S.sk.buf, !.dir[ACTIVE].mt = T,
                      !.g.flushed = @ \cup RecSet(S.sk.buf),
                      !.g.stale = @ \/ (\E r \in RecSet(S.sk.buf) : S.g.rday[r] # LD(S.g, T)),
                      !.sk.buf = <<>>, !.sk.pc = FlushNext(pc)]
      [] pc = "appW" ->
            \* a record larger than the buffer is written directly
            [S EXCEPT !.dir[ACTIVE].recs = Append(@, m), !.dir[ACTIVE].mt = T,
                      !.g.flushed = @ \cup {m}, !.g.hist = Append(@, m), !.sk.msg = 0, !.sk.pc = "idle"]
      [] pc = "ctor" \/ pc = "reopen" ->
            LET S1 == IF ACTIVE \in DOMAIN S.dir /\ lab.m = "append" THEN S
                      ELSE [S EXCEPT !.dir = With(S.dir, ACTIVE, File("plain", <<>>, T, 0))]
            IN  [S1 EXCEPT !.sk.open = TRUE, !.sk.pc = IF pc = "ctor" THEN "idle" ELSE "setDay"]
      [] pc = "destroyClose" -> [S EXCEPT !.sk = Dead]
      [] pc = "rotClose" -> [S EXCEPT !.sk.open = FALSE, !.sk.pc = "rotPick"]
      [] pc = "rotRename" ->
            IF ok THEN [S EXCEPT !.dir = Without(With(S.dir, rn, S.dir[ACTIVE]), ACTIVE),
                                 !.g.used = @ \cup {rn}, !.g.order = Append(@, rn), !.g.stale = FALSE,
                                 !.sk.pc = IF C.gz THEN "gzOpenIn" ELSE "ret"]
            ELSE [S EXCEPT !.g.faulted = TRUE, !.sk.pc = "cpOpenSrc"]
      \* QFile::rename falls back to copying when the rename itself failed; in the modelled fault set the
      \* copy cannot create its destination either, so the rename as a whole fails
      [] pc = "cpOpenSrc" -> [S EXCEPT !.sk.pc = IF ok THEN "cpOpenDst" ELSE "ret"]
      [] pc = "cpOpenDst" -> [S EXCEPT !.sk.pc = "cpCloseSrc"]                   \* only the failing branch
      [] pc = "cpCloseSrc" -> [S EXCEPT !.sk.pc = "ret"]
      [] pc = "gzOpenIn" ->
            IF ok THEN [S EXCEPT !.sk.pc = "gzOpenOut"]
            ELSE [S EXCEPT !.g.faulted = TRUE, !.sk.pc = "ret"]
      [] pc = "gzOpenOut" ->
            IF ok THEN [S EXCEPT !.dir = With(S.dir, GzOf(rn), File("gzw", <<>>, T, 0)),
                                 !.g.used = @ \cup {GzOf(rn)},
                                 !.sk.inClosed = FALSE, !.sk.wrote = FALSE, !.sk.pc = "gzBody"]
            ELSE [S EXCEPT !.g.faulted = TRUE, !.sk.pc = "gzCloseIn"]
      [] pc = "gzCloseIn" -> [S EXCEPT !.sk.pc = "ret"]
      [] pc = "gzBody" ->
            IF lab.c = "write" THEN [S EXCEPT !.dir[GzOf(rn)].mt = T, !.sk.wrote = TRUE]
            ELSE IF lab.f = rn THEN [S EXCEPT !.sk.inClosed = TRUE]
            ELSE [S EXCEPT !.dir[GzOf(rn)].st = "gz", !.dir[GzOf(rn)].recs = S.dir[rn].recs,
                           !.sk.pc = "gzUnlink"]
      [] pc = "gzUnlink" ->
            IF lab.c = "close" THEN [S EXCEPT !.sk.inClosed = TRUE]
            ELSE IF ok THEN [S EXCEPT !.dir = Without(S.dir, rn), !.sk.pc = "ret"]
            ELSE [S EXCEPT !.g.faulted = TRUE, !.sk.pc = "ret"]
      [] pc = "gzAny" ->
            LET gz == GzOf(rn) IN
           (CASE lab.c = "open" /\ lab.f = rn ->
                    IF ok THEN [S EXCEPT !.sk.inOpen = TRUE]
                    ELSE [S EXCEPT !.g.faulted = TRUE, !.sk.inClosed = TRUE]
              [] lab.c = "close" /\ lab.f = rn -> [S EXCEPT !.sk.inClosed = TRUE]
              [] lab.c = "open" /\ lab.f = gz ->
                    IF ok THEN [S EXCEPT !.dir = With(S.dir, gz, File("gzw", <<>>, T, 0)), !.g.used = @ \cup {gz},
                                         !.sk.outOpen = TRUE]
                    ELSE [S EXCEPT !.g.faulted = TRUE, !.sk.outOpen = TRUE, !.sk.outClosed = TRUE]
              [] lab.c = "write" -> [S EXCEPT !.dir[gz].mt = T, !.sk.wrote = TRUE]
              [] lab.c = "close" /\ lab.f = gz ->
                    [S EXCEPT !.dir[gz].st = "gz", !.dir[gz].recs = S.dir[rn].recs, !.sk.outClosed = TRUE]
              [] lab.c = "unlink" ->
                    IF ok THEN [S EXCEPT !.dir = Without(S.dir, rn), !.sk.pc = "ret"]
                    ELSE [S EXCEPT !.g.faulted = TRUE, !.sk.pc = "ret"])
      [] pc = "retU" ->
            LET v == Head(S.sk.vict)
            IN  IF ok THEN [S EXCEPT !.dir = Without(S.dir, v),
                                     !.g.removed = @ \cup RecSet(S.dir[v].recs),
                                     !.g.retired = @ \cup {v},
                                     !.sk.vict = Tail(@)]
                ELSE [S EXCEPT !.g.faulted = TRUE, !.sk.vict = Tail(@)]

\* Labels an implementation may show instead of the code's own without it being a different step: the
\* code opens the active file for appending; opening it with truncation is the same call as long as there
\* is nothing to truncate - and destroys the file's records otherwise (DoSys models that, and the
\* properties then report the loss).  Used by trace validation only.
ObservableLabels(S) ==
    SysLabels(S) \cup (IF S.sk.pc \in {"ctor", "reopen"} THEN {Lab("open", ACTIVE, NONE, "trunc")} ELSE {})
                 \* the order in which the two files of a compression are closed does not matter
                 \cup (IF S.sk.pc = "gzBody" /\ S.sk.wrote THEN {Lab("close", GzOf(S.sk.rn), NONE, "")} ELSE {})
                 \cup (IF S.sk.pc = "gzUnlink" /\ ~S.sk.inClosed THEN {Lab("close", S.sk.rn, NONE, "")} ELSE {})

\* which outcomes the model allows for a label in state S
SysEnabled(S, lab, ok) ==
    /\ lab \in ObservableLabels(S)
    /\ ok \/ MayFail(S, lab)
    /\ (S.sk.pc = "cpOpenDst") => ~ok

\* Flushes the code performs only as a side effect of asking QFile for its size; an implementation that
\* does not flush there (or flushes more often) is the same machine as far as the properties go.
OptionalFlushPc(pc) == pc \in {"startupF", "dailyF", "sizeF"}
FlushNow(S, T) ==
    [S EXCEPT !.dir[ACTIVE].recs = @ \o S.sk.buf, !.dir[ACTIVE].mt = T,
              !.g.flushed = @ \cup RecSet(S.sk.buf),
              !.g.stale = @ \/ (\E r \in RecSet(S.sk.buf) : S.g.rday[r] # LD(S.g, T)),
              !.sk.buf = <<>>]

\* run all internal steps up to the next libc call (or to rest); they are deterministic
RECURSIVE Settle(_, _, _)
Settle(S, C, T) == IF AtRest(S) \/ NeedsSys(S) THEN S ELSE Settle(DoInt(S, C, T), C, T)

Here == [dir |-> dir, sk |-> sk, g |-> g]
Become(S) == dir' = S.dir /\ sk' = S.sk /\ g' = S.g

---------------------------------------------------------------------------
\* Actions

Idle == sk.alive /\ sk.pc = "idle"

\* RotatingFileSink::send(record of `len` bytes incl. the newline, logged on the current day)
BeginSend(len) ==
    /\ Idle
    /\ LET r == Len(g.rlen) + 1
       IN  /\ g' = [g EXCEPT !.rlen = Append(@, len), !.rday = Append(@, LD(g, now))]
           /\ sk' = [sk EXCEPT !.msg = r, !.pc = "init"]
    /\ UNCHANGED <<cfg, dir, now>>

BeginFlush == Idle /\ sk' = [sk EXCEPT !.pc = "flushOp"] /\ UNCHANGED <<cfg, dir, now, g>>

\* the stop rule of the environment (DESIGN 3.1j): the process is not stopped while the active file or
\* the buffer holds records of an earlier day than the one they are (or would be) flushed on
CanStop == ~g.stale /\ \A i \in 1..Len(sk.buf) : g.rday[sk.buf[i]] = LD(g, now)

BeginDestroy == Idle /\ sk' = [sk EXCEPT !.pc = "destroyF"] /\ UNCHANGED <<cfg, dir, now, g>>

\* a new process constructs the sink (FileSink constructor opens the file for appending)
BeginConstruct ==
    /\ ~sk.alive
    /\ sk' = [Dead EXCEPT !.alive = TRUE, !.pc = "ctor"]
    /\ g' = [g EXCEPT !.restarts = @ + 1]
    /\ UNCHANGED <<cfg, dir, now>>

\* ... possibly with other constructor arguments than the previous process used
BeginConstructWith(c) ==
    /\ ~sk.alive
    /\ cfg' = c
    /\ sk' = [Dead EXCEPT !.alive = TRUE, !.pc = "ctor"]
    /\ g' = [g EXCEPT !.restarts = @ + 1, !.reconfigured = @ \/ (c # cfg /\ g.restarts > 0)]
    /\ UNCHANGED <<dir, now>>

StepInt ==
    /\ sk.alive /\ ~AtRest(Here) /\ ~NeedsSys(Here)
    /\ Become(DoInt(Here, cfg, now))
    /\ UNCHANGED <<cfg, now>>

StepSys(lab, ok) ==
    /\ sk.alive /\ ~AtRest(Here) /\ NeedsSys(Here)
    /\ SysEnabled(Here, lab, ok)
    /\ Become(DoSys(Here, cfg, now, lab, ok))
    /\ UNCHANGED <<cfg, now>>

\* the process dies: what QFile had buffered is gone, the directory stays
Crash ==
    /\ sk.alive
    /\ sk' = Dead
    /\ g' = [g EXCEPT !.crashed = TRUE]
    /\ UNCHANGED <<cfg, dir, now>>

\* Qt calls abort() when the message handler has returned from a fatal message
Abort ==
    /\ Idle
    /\ sk' = Dead
    /\ g' = [g EXCEPT !.crashed = TRUE, !.fatalLost = ~(sk.buf = <<>> /\ RecSet(g.hist) \subseteq g.flushed)]
    /\ UNCHANGED <<cfg, dir, now>>

SetNow(t) == /\ (t = now \/ TLess(now, t)) /\ now' = t /\ UNCHANGED <<cfg, dir, sk, g>>

\* the process finds itself in another time zone (TZ changed, a laptop that travelled): the local date jumps by
\* whole days - possibly BACK - although time itself goes on.  The active file then holds records of another local
\* day than the clock says (the same situation as a file written yesterday), hence g.stale.
ShiftZone(z, t) ==
    /\ ~sk.alive \/ sk.pc = "idle"
    /\ z # g.tz
    /\ TLess(now, t) /\ now' = t           \* it does not happen within one tick of the file system's clock
    /\ g' = [g EXCEPT !.tz = z, !.zoned = TRUE,
                      !.stale = @ \/ (ACTIVE \in DOMAIN dir /\ dir[ACTIVE].recs # <<>>)]
    /\ UNCHANGED <<cfg, dir, sk>>

---------------------------------------------------------------------------
\* Initial state for a directory D0 holding records 1..Len(rlen0) and configuration c

Ghost0(D0, rlen0, rday0, hist0) ==
    [rlen |-> rlen0, rday |-> rday0, hist |-> hist0,
     flushed |-> RecSet(hist0), removed |-> {}, retired |-> {},
     used |-> RotNames(D0), used0 |-> RotNames(D0), order |-> <<>>,
     foreign0 |-> [n \in {x \in DOMAIN D0 : IsForeign(x)} |-> D0[n]],
     crashed |-> FALSE, faulted |-> FALSE, stale |-> FALSE, restarts |-> 0, fatalLost |-> FALSE, reconfigured |-> FALSE,
     tz |-> 0, zoned |-> FALSE]

InitWith(c, D0, rlen0, rday0, hist0, t0) ==
    /\ cfg = c /\ dir = D0 /\ sk = Dead /\ now = t0
    /\ g = Ghost0(D0, rlen0, rday0, hist0)

---------------------------------------------------------------------------
\* Properties.  `Clean` = neither a crash nor an injected I/O failure has happened so far.

Clean == ~g.crashed /\ ~g.faulted

\* rotation order of what is in the directory: (day, idx); a rotated log is present as its plain file,
\* or - once that has been removed - as its complete compressed file.  Once the local date has gone back
\* (ShiftZone) the names no longer tell the order in which the files were rotated: what was there at the start
\* comes first (by name), then the rotations of this history in the order they happened (g.order).
Slots == {<<n[2], n[3]>> : n \in RotNames(dir)}
OrderPos(s) == LET is == {i \in 1..Len(g.order) : g.order[i][2] = s[1] /\ g.order[i][3] = s[2]}
               IN  IF g.zoned /\ is # {} THEN CHOOSE i \in is : TRUE ELSE 0
SlotLess(x, y) == \/ OrderPos(x) < OrderPos(y)
                  \/ OrderPos(x) = OrderPos(y) /\ (x[1] < y[1] \/ (x[1] = y[1] /\ x[2] < y[2]))
RECURSIVE SortSlots(_)
SortSlots(ss) ==
    IF ss = {} THEN <<>>
    ELSE LET m == CHOOSE x \in ss : \A y \in ss \ {x} : SlotLess(x, y)
         IN  <<m>> \o SortSlots(ss \ {m})
SlotRecs(s) ==
    LET p == Rot(s[1], s[2], 0)
        z == Rot(s[1], s[2], 1)
    IN  IF p \in DOMAIN dir THEN dir[p].recs
        ELSE IF dir[z].st = "gz" THEN dir[z].recs ELSE <<>>
ReadBack ==
    FlattenSeq([i \in 1..Cardinality(Slots) |-> SlotRecs(SortSlots(Slots)[i])])
        \o (IF ACTIVE \in DOMAIN dir THEN dir[ACTIVE].recs ELSE <<>>)

\* C05: reading rotated files in rotation order, then the active file (then what is still buffered, which
\* reaches the file at the next flush) gives the history minus whole files removed by retention
ReadBackIsHistory ==
    Clean => (ReadBack \o sk.buf = SelectSeq(g.hist, LAMBDA r : r \notin g.removed))

\* C06
LogFiles == RotNames(dir) \cup ({ACTIVE} \cap DOMAIN dir)
CountBound == (Clean /\ cfg.N >= 2 /\ Idle /\ g.hist # <<>>) => Cardinality(LogFiles) <= cfg.N
\* the removed records are an initial stretch of the history: nothing older than a removed record survives
SurvivorsAreRecentSuffix ==
    Clean => \A i \in 1..Len(g.hist) : g.hist[i] \in g.removed =>
                 \A j \in 1..i : g.hist[j] \in g.removed
NoRetentionWhenUnlimited == (cfg.N <= 0) => (g.removed = {} /\ g.retired = {})
NoRotationWhenOne == (cfg.N = 1) => (g.used = g.used0)
ForeignUntouched == \A n \in DOMAIN g.foreign0 : n \in DOMAIN dir /\ dir[n] = g.foreign0[n]

\* C07
WithinLimit(recs) == SumLen(g, recs) <= cfg.L \/ Len(recs) <= 1
SizeBound ==
    (cfg.L > 0 /\ cfg.N # 1 /\ ~g.faulted) =>
        /\ \A n \in RotNames(dir) : dir[n].st \in {"plain", "gz"} => WithinLimit(dir[n].recs)
        /\ ACTIVE \in DOMAIN dir => WithinLimit(dir[ACTIVE].recs \o sk.buf)

\* C08: a finished compressed file holds exactly the records of the log it replaces, and the log file
\* disappears only once the compressed one is complete (so in every state one intact copy exists)
GzFaithful ==
    \A n \in RotNames(dir) : (n[4] = 1 /\ dir[n].st = "gz" /\ Rot(n[2], n[3], 0) \in DOMAIN dir)
                                => dir[n].recs = dir[Rot(n[2], n[3], 0)].recs
OrigRemovedStep ==
    \A n \in RotNames(dir) :
          (n[4] = 0 /\ n \notin DOMAIN dir' /\ n \notin g'.retired)
             => (GzOf(n) \in DOMAIN dir' /\ dir'[GzOf(n)].st = "gz" /\ dir'[GzOf(n)].recs = dir[n].recs)
OrigRemovedOnlyAfterGzClosed == [][OrigRemovedStep]_vars

\* C09
OneDay(recs) == \A i, j \in 1..Len(recs) : g.rday[recs[i]] = g.rday[recs[j]]
DaysApart ==
    (cfg.daily /\ cfg.N # 1 /\ Clean) =>
        /\ \A n \in DOMAIN dir : dir[n].st \in {"plain", "gz"} => OneDay(dir[n].recs)
        /\ ACTIVE \in DOMAIN dir => OneDay(dir[ACTIVE].recs \o sk.buf)
NameCarriesDay ==
    (cfg.daily /\ cfg.N # 1 /\ Clean) =>
        \A n \in RotNames(dir) : dir[n].st \in {"plain", "gz"} =>
            \A i \in 1..Len(dir[n].recs) : g.rday[dir[n].recs[i]] = n[2]
\* a name that appears in the directory has never been there before, and its index is larger than every
\* index ever used for that day
NamesStep ==
    \A n \in RotNames(dir') \ RotNames(dir) :
           /\ n \notin g.used
           /\ \A u \in g.used : u[2] = n[2] =>
                 (u[3] < n[3] \/ (u[3] = n[3] /\ n[4] = 1 /\ u[4] = 0))
NamesNeverReused == [][NamesStep]_vars

\* C10: whatever has reached a file and was not removed by retention is in an intact file - in every
\* state, i.e. at every instant a crash could happen, and after crashes, faults and restarts
FlushedRecoverable ==
    (g.flushed \ g.removed) \subseteq
        UNION {RecSet(dir[n].recs) : n \in {x \in DOMAIN dir : dir[x].st \in {"plain", "gz"}}}

\* C11 (file half): when the process is aborted right after a fatal message was handled, nothing is left in
\* QFile's buffer: every record handed to the sink, the fatal one included, has reached the file
FatalDurable(S) == S.sk.buf = <<>> /\ RecSet(S.g.hist) \subseteq S.g.flushed

FatalDurableInv == ~g.fatalLost

\* nothing is ever written twice (C05 "duplicates")
NoDuplicates ==
    Clean => \A n1, n2 \in DOMAIN dir :
                (n1 # n2 /\ dir[n1].st = "plain" /\ dir[n2].st = "plain")
                    => RecSet(dir[n1].recs) \cap RecSet(dir[n2].recs) = {}

\* reachability witnesses: each is expected to be VIOLATED by the exhaustive configurations
W_NeverRotates == g.order = <<>>
W_NeverRetires == g.retired = {}
W_NeverCompresses == \A n \in RotNames(dir) : dir[n].st # "gz"
W_NeverLeftover == ~(g.crashed /\ \E n \in RotNames(dir) : dir[n].st = "gzw")
W_NeverFaulted == ~g.faulted
W_NeverTwoDays == \A i, j \in 1..Len(g.hist) : g.rday[g.hist[i]] = g.rday[g.hist[j]]
W_NeverZonedRotation == ~(g.zoned /\ \E i \in 1..Len(g.order) : \E j \in 1..Len(g.order) : i < j /\ g.order[j][2] < g.order[i][2])
W_NeverDirectWrite == \A i \in 1..Len(g.hist) : g.rlen[g.hist[i]] <= BufCap

TypeOK ==
    /\ sk.pc \in {"dead", "idle", "ctor", "init", "startupF", "startupC", "daily", "dailyF", "dailyC", "size",
                  "sizeF", "sizeC", "app", "appF", "appW", "flushOp", "destroyF", "destroyClose", "rot", "rotF",
                  "rotClose", "rotPick", "rotRename", "cpOpenSrc", "cpOpenDst", "cpCloseSrc", "gzOpenIn",
                  "gzOpenOut", "gzCloseIn", "gzBody", "gzUnlink", "gzAny", "ret", "retU", "reopen", "setDay"}
    /\ sk.alive = (sk.pc # "dead")
=============================================================================
