CONSTANTS
  Apps = {"o1/a1", "o1/a2", "o2/a1", "o2/a2"}
  Vers = {"", "1.0", "2.1"}
  H = {1, 2, 3, 4}
SPECIFICATION TraceSpec
INVARIANTS UuidOwn
POSTCONDITION TraceAccepted
CHECK_DEADLOCK FALSE
