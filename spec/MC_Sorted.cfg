SPECIFICATION Spec
CONSTANT MaxCalls = 6
CONSTRAINT Bound
INVARIANT TypeOK
INVARIANT C17
PROPERTY AppendAddsOne
