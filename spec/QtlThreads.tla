------------------------------ MODULE QtlThreads ------------------------------
(***************************************************************************)
(* The concurrent core of qtlogger: Logger::processMessage (logger.cpp)    *)
(* and OwnThreadHandler (ownthreadhandler.h) - the logger's recursive      *)
(* mutex, the handler's mutex, the hand-off of messages to the worker      *)
(* object living in the logger's own QThread, resetOwnThread /             *)
(* moveToOwnThread and the life of the QCoreApplication object.            *)
(* Properties C02 (synchronous mode), C03 (hand-off), C04 (stopping).      *)
(*                                                                         *)
(* Shape: one program counter per thread; every lock operation, every      *)
(* access to m_thread / m_worker / m_pendingCount and every step of the    *)
(* pipeline that matters for a lost update (the sequence counter is read   *)
(* and written in two steps) is its own action.  The pc values are the     *)
(* names of the QTLOGGER_VERIF_POINTs in the code, so a recorded execution *)
(* is a sequence of (thread, point) pairs the spec can or cannot follow.   *)
(*                                                                         *)
(* Modelled behaviour of Qt (observed / documented): posted events for one *)
(* receiver are delivered in posting order; an event whose receiver lives  *)
(* in a QThread is DISCARDED, not delivered, when there is no              *)
(* QCoreApplication instance; QThread::quit makes the event loop return    *)
(* once the handler of the current event has returned; the worker object   *)
(* is deleted when the thread has finished; QPointer<QThread> is only      *)
(* cleared by resetOwnThread (the thread object's deleteLater needs the    *)
(* main event loop).                                                       *)
(***************************************************************************)
EXTENDS Integers, Sequences, FiniteSets, SequencesExt, TLC

CONSTANTS Producers,      \* producer thread names
          Stoppers        \* threads that may call resetOwnThread / moveToOwnThread (the main thread "M" included)

W == "W"
NoOne == "none"
Threads == Producers \cup Stoppers \cup {W}

VARIABLES conf,       \* [useLogger: Logger (both locks) / bare OwnThreadHandler<Pipeline> (handler lock only),
                      \*  recheck: resetOwnThread re-reads m_thread after its wait loop,
                      \*  locks: FALSE = a deliberately broken variant whose mutexes exclude nobody (used only to
                      \*         show that the exclusion properties are not vacuous),
                      \*  eager: (trace validation) a mutex whose owner has passed its last point inside the locked
                      \*         scope counts as available - the release itself is not an observable event,
                      \*  rt: record which calls had returned when a call began (ghost for RealTimeOrder; off in the
                      \*      configurations where it would only multiply states),
                      \*  fatalEvery: every n-th message of a producer is a fatal one (0 = none): after a fatal message that
                      \*        was processed synchronously, processMessage flushes the sinks inside its critical section,
                      \*  disc: resetOwnThread disconnects the aboutToQuit connection of the thread object it stops
                      \*        (FALSE = the code before the fix, kept as a witness),
                      \*  safeEnv: the environment keeps asynchronous logging inside the life of the application
                      \*           object (moves only while it exists, stops before it is destroyed)]
          lm,         \* logger mutex (recursive): [owner, depth]
          hm,         \* handler mutex owner
          tptr,       \* m_thread # nullptr
          wptr,       \* m_worker # nullptr
          thr,        \* the QThread: "none" | "running" | "quitting" | "finished"
          wobj,       \* the worker object: "none" | "alive" | "freed"
          queue,      \* events posted to the worker, in posting order
          pending,    \* m_pendingCount
          app,        \* QCoreApplication instance: "none" | "alive" | "dead"
          hooked,     \* the current thread object carries an aboutToQuit connection that calls resetOwnThread
          hobj,       \* the handler object itself: "alive" | "destroyed"
          stale,      \* aboutToQuit connections carried by stopped thread objects that the event loop has not
                      \* deleted yet (deleteLater) - they still call resetOwnThread on the handler
          pc,         \* per thread
          cur,        \* per thread: message in hand (<<>> = none)
          todo,       \* per producer: messages still to log
          script,     \* per stopper: operations still to perform
          inPipe,     \* threads inside the pipeline
          ctr,        \* the sequence-number handler's counter
          rd,         \* per thread: counter value it has read
          delivered,  \* sink deliveries: [m, by, n, async]
          accepted,   \* messages handed to the worker, in hand-off order
          ghost       \* [crashed, cleared (messages accepted at the last rs.cleared), stops,
                      \*  returned (messages whose logging call is back in the caller),
                      \*  pre (per message: the messages whose call had returned when its own call began)]

vars == <<conf, lm, hm, tptr, wptr, thr, wobj, queue, pending, app, hooked, hobj, stale, hobj, stale, pc, cur, todo, script, inPipe, ctr, rd,
          delivered, accepted, ghost>>

NoMsg == <<>>

---------------------------------------------------------------------------
\* helpers
Set(s) == {s[i] : i \in 1..Len(s)}
DeliveredMsgs == {delivered[i].m : i \in 1..Len(delivered)}
Goto(t, p) == pc' = [pc EXCEPT ![t] = p]

\* Is the handler / logger mutex available to thread t?  With conf.eager the owner's imminent release
\* (it is past its last point inside the scope of the QMutexLocker) is anticipated.
HReleasing(o) ==
    \/ pc[o] \in {"oth.posted", "oth.sync.end", "pm.done", "ret", "rs.cleared", "mv.started", "rs.unlocking",
                  "rs.leaving", "mv.leaving"}     \* (trace validation) the call has decided to return without doing anything
    \/ pc[o] = "rs.locked" /\ ~tptr
    \/ pc[o] = "mv.locked" /\ tptr
    \/ pc[o] = "rs.check" /\ pending = 0 /\ ~tptr /\ conf.recheck
    \/ pc[o] \in {"rs.check", "rs.locked"} /\ tptr /\ pending > 0      \* about to unlock for the wait
HAvail(t) == hm = NoOne \/ ~conf.locks \/ (conf.eager /\ hm # NoOne /\ hm # t /\ HReleasing(hm))
LAvail(t) == lm.owner \in {NoOne, t} \/ ~conf.locks \/ (conf.eager /\ lm.owner # NoOne /\ pc[lm.owner] \in {"pm.done", "ret"})

---------------------------------------------------------------------------
\* Logging call of producer t (Logger::processMessage -> OwnThreadHandler::process)

CallBegin(t) ==
    /\ pc[t] = "idle" /\ todo[t] # <<>>
    /\ cur' = [cur EXCEPT ![t] = Head(todo[t])]
    /\ ghost' = IF conf.rt THEN [ghost EXCEPT !.pre = Append(@, [m |-> Head(todo[t]), before |-> ghost.returned])] ELSE ghost
    /\ Goto(t, IF conf.useLogger THEN "pm.enter" ELSE "pm.locked")
    /\ UNCHANGED <<lm, hm, tptr, wptr, thr, wobj, queue, pending, app, hooked, hobj, stale, todo, script, inPipe, ctr, rd,
                   delivered, accepted>>

LockL(t) ==                      \* QMutexLocker locker(mutex())  - recursive
    /\ pc[t] = "pm.enter"
    /\ IF conf.useLogger
       THEN /\ LAvail(t)
            /\ lm' = [owner |-> t, depth |-> IF lm.owner = t THEN lm.depth + 1 ELSE 1]
       ELSE UNCHANGED lm
    /\ Goto(t, "pm.locked")
    /\ UNCHANGED <<hm, tptr, wptr, thr, wobj, queue, pending, app, hooked, hobj, stale, cur, todo, script, inPipe, ctr, rd,
                   delivered, accepted, ghost>>

LockH(t) ==                      \* QMutexLocker locker(&m_mutex) in process()
    /\ pc[t] = "pm.locked"
    /\ HAvail(t)
    /\ hm' = t
    /\ Goto(t, "oth.locked")
    /\ UNCHANGED <<lm, tptr, wptr, thr, wobj, queue, pending, app, hooked, hobj, stale, cur, todo, script, inPipe, ctr, rd,
                   delivered, accepted, ghost>>

Branch(t) ==                     \* if (m_worker) { pending++ ... } else sync
    /\ pc[t] = "oth.locked"
    /\ IF wptr
       THEN /\ pending' = pending + 1
            /\ Goto(t, "oth.posting")
       ELSE /\ UNCHANGED pending
            /\ Goto(t, "oth.sync.begin")
    /\ UNCHANGED <<lm, hm, tptr, wptr, thr, wobj, queue, app, hooked, hobj, stale, cur, todo, script, inPipe, ctr, rd,
                   delivered, accepted, ghost>>

Post(t) ==                       \* QCoreApplication::postEvent(m_worker, new LogEvent(lmsg))
    /\ pc[t] = "oth.posting"
    /\ queue' = Append(queue, cur[t])
    /\ accepted' = Append(accepted, cur[t])
    /\ ghost' = [ghost EXCEPT !.crashed = @ \/ wobj # "alive"]       \* posting to a deleted worker
    /\ Goto(t, "oth.posted")
    /\ UNCHANGED <<lm, hm, tptr, wptr, thr, wobj, pending, app, hooked, hobj, stale, cur, todo, script, inPipe, ctr, rd, delivered>>

IsFatal(m) == conf.fatalEvery > 0 /\ m # NoMsg /\ m[2] % conf.fatalEvery = 0
\* if (type == QtFatalMsg) { if (!ownThreadIsRunning()) flush(); }
NeedsFlush(t) == conf.useLogger /\ IsFatal(cur[t]) /\ ~(tptr /\ thr \in {"running", "quitting"})

UnlockH(t) ==
    /\ pc[t] \in {"oth.posted", "oth.sync.end"}
    /\ hm' = IF hm = t THEN NoOne ELSE hm
    /\ Goto(t, IF NeedsFlush(t) THEN "pm.flush" ELSE "pm.done")
    /\ UNCHANGED <<lm, tptr, wptr, thr, wobj, queue, pending, app, hooked, hobj, stale, cur, todo, script, inPipe, ctr, rd,
                   delivered, accepted, ghost>>

FlushBegin(t) ==                 \* the flush walk enters the sinks: the thread is inside the pipeline again
    /\ pc[t] = "pm.flush"
    /\ inPipe' = inPipe \cup {t}
    /\ Goto(t, "pm.flushing")
    /\ UNCHANGED <<lm, hm, tptr, wptr, thr, wobj, queue, pending, app, hooked, hobj, stale, cur, todo, script, ctr, rd,
                   delivered, accepted, ghost>>

FlushEnd(t) ==
    /\ pc[t] = "pm.flushing"
    /\ inPipe' = inPipe \ {t}
    /\ Goto(t, "pm.done")
    /\ UNCHANGED <<lm, hm, tptr, wptr, thr, wobj, queue, pending, app, hooked, hobj, stale, cur, todo, script, ctr, rd,
                   delivered, accepted, ghost>>

UnlockL(t) ==                    \* the logger mutex is released when processMessage returns
    /\ pc[t] = "pm.done"
    /\ IF conf.useLogger
       THEN lm' = IF lm.owner = t THEN [owner |-> IF lm.depth = 1 THEN NoOne ELSE t, depth |-> lm.depth - 1] ELSE lm
       ELSE UNCHANGED lm
    /\ Goto(t, "ret")
    /\ UNCHANGED <<hm, tptr, wptr, thr, wobj, queue, pending, app, hooked, hobj, stale, cur, todo, script, inPipe, ctr, rd,
                   delivered, accepted, ghost>>

CallEnd(t) ==                    \* back in the caller
    /\ pc[t] = "ret"
    /\ todo' = [todo EXCEPT ![t] = Tail(@)]
    /\ cur' = [cur EXCEPT ![t] = NoMsg]
    /\ ghost' = IF conf.rt THEN [ghost EXCEPT !.returned = @ \cup {cur[t]}] ELSE ghost
    /\ Goto(t, "idle")
    /\ UNCHANGED <<lm, hm, tptr, wptr, thr, wobj, queue, pending, app, hooked, hobj, stale, script, inPipe, ctr, rd,
                   delivered, accepted>>

\* Branch and Post as one step (what a trace shows at the point "oth.posting": the counter is already
\* incremented and the event is about to be posted, all under the handler mutex)
BranchPost(t) ==
    /\ pc[t] = "oth.locked" /\ wptr
    /\ pending' = pending + 1
    /\ queue' = Append(queue, cur[t])
    /\ accepted' = Append(accepted, cur[t])
    /\ ghost' = [ghost EXCEPT !.crashed = @ \/ wobj # "alive"]
    /\ Goto(t, "oth.posted")
    /\ UNCHANGED <<lm, hm, tptr, wptr, thr, wobj, app, hooked, hobj, stale, cur, todo, script, inPipe, ctr, rd, delivered>>

---------------------------------------------------------------------------
\* The pipeline as run by thread t (a producer in synchronous mode, or the worker):
\* [enter probe, SeqNumberAttr (read, then write), sink, exit probe]

PipeStart(t) == IF t = W THEN "wk.begin" ELSE "oth.sync.begin"
PipeDone(t) == IF t = W THEN "wk.processed" ELSE "oth.sync.end"

PipeEnter(t) ==
    /\ pc[t] = PipeStart(t)
    /\ inPipe' = inPipe \cup {t}
    /\ Goto(t, "pipe.read")
    /\ UNCHANGED <<lm, hm, tptr, wptr, thr, wobj, queue, pending, app, hooked, hobj, stale, cur, todo, script, ctr, rd,
                   delivered, accepted, ghost>>

PipeRead(t) ==
    /\ pc[t] = "pipe.read"
    /\ rd' = [rd EXCEPT ![t] = ctr]
    /\ Goto(t, "pipe.write")
    /\ UNCHANGED <<lm, hm, tptr, wptr, thr, wobj, queue, pending, app, hooked, hobj, stale, cur, todo, script, inPipe, ctr,
                   delivered, accepted, ghost>>

PipeWrite(t) ==
    /\ pc[t] = "pipe.write"
    /\ ctr' = rd[t] + 1
    /\ Goto(t, "pipe.deliver")
    /\ UNCHANGED <<lm, hm, tptr, wptr, thr, wobj, queue, pending, app, hooked, hobj, stale, cur, todo, script, inPipe, rd,
                   delivered, accepted, ghost>>

PipeDeliver(t) ==
    /\ pc[t] = "pipe.deliver"
    /\ delivered' = Append(delivered, [m |-> cur[t], by |-> t, n |-> rd[t], async |-> (t = W)])
    /\ Goto(t, "pipe.exit")
    /\ UNCHANGED <<lm, hm, tptr, wptr, thr, wobj, queue, pending, app, hooked, hobj, stale, cur, todo, script, inPipe, ctr, rd,
                   accepted, ghost>>

\* SeqNumberAttr and the sink as one step (what a trace shows at the sink's delivery)
PipeRun(t) ==
    /\ pc[t] = "pipe.read"
    /\ rd' = [rd EXCEPT ![t] = ctr]
    /\ ctr' = ctr + 1
    /\ delivered' = Append(delivered, [m |-> cur[t], by |-> t, n |-> ctr, async |-> (t = W)])
    /\ Goto(t, "pipe.exit")
    /\ UNCHANGED <<lm, hm, tptr, wptr, thr, wobj, queue, pending, app, hooked, hobj, stale, cur, todo, script, inPipe,
                   accepted, ghost>>

PipeExit(t) ==
    /\ pc[t] = "pipe.exit"
    /\ inPipe' = inPipe \ {t}
    /\ Goto(t, PipeDone(t))
    /\ UNCHANGED <<lm, hm, tptr, wptr, thr, wobj, queue, pending, app, hooked, hobj, stale, cur, todo, script, ctr, rd,
                   delivered, accepted, ghost>>

---------------------------------------------------------------------------
\* The worker thread's event loop (Worker::customEvent)

WTake ==                         \* Qt delivers the next posted LogEvent
    /\ pc[W] = "loop" /\ thr \in {"running", "quitting"} /\ queue # <<>> /\ app = "alive"
    /\ cur' = [cur EXCEPT ![W] = Head(queue)]
    /\ queue' = Tail(queue)
    /\ Goto(W, "wk.begin")
    /\ UNCHANGED <<lm, hm, tptr, wptr, thr, wobj, pending, app, hooked, hobj, stale, todo, script, inPipe, ctr, rd,
                   delivered, accepted, ghost>>

WDiscard ==                      \* no QCoreApplication instance: the event is deleted undelivered
    /\ pc[W] = "loop" /\ thr \in {"running", "quitting"} /\ queue # <<>> /\ app # "alive"
    /\ queue' = Tail(queue)
    /\ UNCHANGED <<lm, hm, tptr, wptr, thr, wobj, pending, app, hooked, hobj, stale, pc, cur, todo, script, inPipe, ctr, rd,
                   delivered, accepted, ghost>>

WDec ==                          \* m_pendingCount.fetchAndSubOrdered(1)
    /\ pc[W] = "wk.processed"
    /\ pending' = pending - 1
    /\ Goto(W, "wk.end")
    /\ UNCHANGED <<lm, hm, tptr, wptr, thr, wobj, queue, app, hooked, hobj, stale, cur, todo, script, inPipe, ctr, rd,
                   delivered, accepted, ghost>>

WBack ==                         \* customEvent returns to the event loop
    /\ pc[W] = "wk.end"
    /\ cur' = [cur EXCEPT ![W] = NoMsg]
    /\ Goto(W, "loop")
    /\ UNCHANGED <<lm, hm, tptr, wptr, thr, wobj, queue, pending, app, hooked, hobj, stale, todo, script, inPipe, ctr, rd,
                   delivered, accepted, ghost>>

WFinish ==                       \* the event loop returns after quit(); finished() deletes the worker object;
    /\ pc[W] = "loop" /\ thr = "quitting"     \* events still queued are never delivered
    /\ thr' = "finished"
    /\ wobj' = "freed"
    /\ queue' = <<>>
    /\ Goto(W, "gone")
    /\ UNCHANGED <<lm, hm, tptr, wptr, pending, app, hooked, hobj, stale, cur, todo, script, inPipe, ctr, rd,
                   delivered, accepted, ghost>>

---------------------------------------------------------------------------
\* Operations of the stopper threads.  script[s] is a sequence of op names; the head is being executed.

Op(s) == IF script[s] = <<>> THEN "" ELSE Head(script[s])
NextOp(s) == script' = [script EXCEPT ![s] = Tail(@)]

\* resetOwnThread()
RsEnter(s) ==
    /\ pc[s] = "idle" /\ Op(s) = "reset"
    /\ Goto(s, "rs.enter")
    /\ ghost' = [ghost EXCEPT !.crashed = @ \/ hobj = "destroyed"]   \* a member function of a destroyed handler
    /\ UNCHANGED <<lm, hm, tptr, wptr, thr, wobj, queue, pending, app, hooked, hobj, stale, cur, todo, script, inPipe, ctr, rd,
                   delivered, accepted>>

RsLock(s) ==
    /\ pc[s] = "rs.enter" /\ HAvail(s)
    /\ hm' = s
    /\ Goto(s, "rs.locked")
    /\ UNCHANGED <<lm, tptr, wptr, thr, wobj, queue, pending, app, hooked, hobj, stale, cur, todo, script, inPipe, ctr, rd,
                   delivered, accepted, ghost>>

RsNoThread(s) ==                 \* if (!m_thread) return;
    /\ pc[s] = "rs.locked" /\ ~tptr
    /\ hm' = (IF hm = s THEN NoOne ELSE hm)
    /\ NextOp(s) /\ Goto(s, "idle")
    /\ UNCHANGED <<lm, tptr, wptr, thr, wobj, queue, pending, app, hooked, hobj, stale, cur, todo, inPipe, ctr, rd,
                   delivered, accepted, ghost>>

RsHasThread(s) ==
    /\ pc[s] = "rs.locked" /\ tptr
    /\ Goto(s, "rs.check")
    /\ UNCHANGED <<lm, hm, tptr, wptr, thr, wobj, queue, pending, app, hooked, hobj, stale, cur, todo, script, inPipe, ctr, rd,
                   delivered, accepted, ghost>>

RsCheckBusy(s) ==                \* while (pending > 0) { unlock; sleep; relock; }
    /\ pc[s] = "rs.check" /\ pending > 0
    /\ hm' = (IF hm = s THEN NoOne ELSE hm)
    /\ Goto(s, "rs.wait.unlock")
    /\ UNCHANGED <<lm, tptr, wptr, thr, wobj, queue, pending, app, hooked, hobj, stale, cur, todo, script, inPipe, ctr, rd,
                   delivered, accepted, ghost>>

RsRelock(s) ==
    /\ pc[s] = "rs.wait.unlock" /\ HAvail(s)
    /\ hm' = s
    /\ Goto(s, "rs.check")
    /\ UNCHANGED <<lm, tptr, wptr, thr, wobj, queue, pending, app, hooked, hobj, stale, cur, todo, script, inPipe, ctr, rd,
                   delivered, accepted, ghost>>

RsCheckIdle(s) ==
    /\ pc[s] = "rs.check" /\ pending = 0
    /\ IF conf.recheck /\ ~tptr
       THEN /\ hm' = (IF hm = s THEN NoOne ELSE hm) /\ NextOp(s) /\ Goto(s, "idle")          \* somebody else stopped it meanwhile
       ELSE /\ Goto(s, "rs.quit") /\ UNCHANGED <<hm, script>>
    /\ UNCHANGED <<lm, tptr, wptr, thr, wobj, queue, pending, app, hooked, hobj, stale, cur, todo, inPipe, ctr, rd,
                   delivered, accepted, ghost>>

RsQuit(s) ==                     \* m_thread->quit()
    /\ pc[s] = "rs.quit"
    /\ thr' = IF thr = "running" THEN "quitting" ELSE thr
    /\ ghost' = [ghost EXCEPT !.crashed = @ \/ ~tptr]                \* null QPointer dereferenced
    /\ Goto(s, "rs.wait")
    /\ UNCHANGED <<lm, hm, tptr, wptr, wobj, queue, pending, app, hooked, hobj, stale, cur, todo, script, inPipe, ctr, rd,
                   delivered, accepted>>

RsJoin(s) ==                     \* m_thread->wait()
    /\ pc[s] = "rs.wait" /\ thr \in {"finished", "none"}
    /\ Goto(s, "rs.joined")
    /\ UNCHANGED <<lm, hm, tptr, wptr, thr, wobj, queue, pending, app, hooked, hobj, stale, cur, todo, script, inPipe, ctr, rd,
                   delivered, accepted, ghost>>

RsClear(s) ==                    \* [disconnect the aboutToQuit hook;] m_thread.clear(); m_worker = nullptr;
    /\ pc[s] = "rs.joined"
    /\ tptr' = FALSE /\ wptr' = FALSE
    /\ thr' = "none" /\ wobj' = "none"
    /\ hooked' = FALSE
    /\ stale' = IF hooked /\ ~conf.disc THEN stale + 1 ELSE stale   \* the thread object lives on until deleteLater runs
    /\ ghost' = [ghost EXCEPT !.cleared = Set(accepted), !.stops = @ + 1]
    /\ Goto(s, "rs.cleared")
    /\ UNCHANGED <<lm, hm, queue, pending, app, hobj, cur, todo, script, inPipe, ctr, rd, delivered, accepted>>

RsUnlock(s) ==
    /\ pc[s] = "rs.cleared"
    /\ hm' = (IF hm = s THEN NoOne ELSE hm)
    /\ NextOp(s) /\ Goto(s, "idle")
    /\ UNCHANGED <<lm, tptr, wptr, thr, wobj, queue, pending, app, hooked, hobj, stale, cur, todo, inPipe, ctr, rd,
                   delivered, accepted, ghost>>

\* moveToOwnThread()
MvLock(s) ==
    /\ pc[s] = "idle" /\ Op(s) = "move" /\ HAvail(s)
    /\ conf.safeEnv => app = "alive"
    /\ hm' = s
    /\ Goto(s, "mv.locked")
    /\ ghost' = [ghost EXCEPT !.crashed = @ \/ hobj = "destroyed"]
    /\ UNCHANGED <<lm, tptr, wptr, thr, wobj, queue, pending, app, hooked, hobj, stale, cur, todo, script, inPipe, ctr, rd,
                   delivered, accepted>>

MvSkip(s) ==                     \* if (m_thread) return *this;
    /\ pc[s] = "mv.locked" /\ tptr
    /\ hm' = (IF hm = s THEN NoOne ELSE hm) /\ NextOp(s) /\ Goto(s, "idle")
    /\ UNCHANGED <<lm, tptr, wptr, thr, wobj, queue, pending, app, hooked, hobj, stale, cur, todo, inPipe, ctr, rd,
                   delivered, accepted, ghost>>

MvCreate(s) ==                   \* new QThread, connect aboutToQuit, new Worker, start
    /\ pc[s] = "mv.locked" /\ ~tptr
    /\ tptr' = TRUE /\ wptr' = TRUE /\ thr' = "running" /\ wobj' = "alive"
    \* the new thread object is the context of the aboutToQuit connection: the hook is called on the thread that
    \* object lives on.  The code moves it to the main thread (conf.rehome); left where it was created, on a thread
    \* without an event loop, the hook would never run
    /\ hooked' = (app = "alive" /\ (conf.rehome \/ s = "M"))
    /\ pc' = [pc EXCEPT ![W] = "loop", ![s] = "mv.started"]
    /\ UNCHANGED <<lm, hm, queue, pending, app, hobj, stale, cur, todo, script, inPipe, ctr, rd, delivered, accepted, ghost>>

MvUnlock(s) ==
    /\ pc[s] = "mv.started"
    /\ hm' = (IF hm = s THEN NoOne ELSE hm) /\ NextOp(s) /\ Goto(s, "idle")
    /\ UNCHANGED <<lm, tptr, wptr, thr, wobj, queue, pending, app, hooked, hobj, stale, cur, todo, inPipe, ctr, rd,
                   delivered, accepted, ghost>>

\* life of the application object (main thread only)
AppCreate(s) ==
    /\ pc[s] = "idle" /\ Op(s) = "appCreate"
    /\ app' = "alive" /\ NextOp(s)
    /\ UNCHANGED <<lm, hm, tptr, wptr, thr, wobj, queue, pending, hooked, hobj, stale, pc, cur, todo, inPipe, ctr, rd,
                   delivered, accepted, ghost>>

\* exec() + quit(): aboutToQuit runs the connected resetOwnThread on this thread, then exec returns
AppQuit(s) ==
    /\ pc[s] = "idle" /\ Op(s) = "execQuit"
    /\ LET n == stale + (IF hooked /\ tptr THEN 1 ELSE 0)            \* every live connection calls resetOwnThread
       IN  script' = [script EXCEPT ![s] = [i \in 1..n |-> "reset"] \o Tail(@)]
    /\ stale' = 0                                                     \* exec() ends by running the deferred deletions
    /\ UNCHANGED <<lm, hm, tptr, wptr, thr, wobj, queue, pending, app, hooked, hobj, pc, cur, todo, inPipe, ctr, rd,
                   delivered, accepted, ghost>>

\* the event loop runs without a quit: the stopped thread objects are deleted (and their connections with them)
AppSpin(s) ==
    /\ pc[s] = "idle" /\ Op(s) = "spin" /\ app = "alive"
    /\ stale' = 0 /\ NextOp(s)
    /\ UNCHANGED <<lm, hm, tptr, wptr, thr, wobj, queue, pending, app, hooked, hobj, pc, cur, todo, inPipe, ctr, rd,
                   delivered, accepted, ghost>>

\* the end of the handler's destructor (its body was the "reset" before): the object is gone
Free(s) ==
    /\ pc[s] = "idle" /\ Op(s) = "free"
    /\ conf.safeEnv => \A t \in Producers : todo[t] = <<>> /\ pc[t] = "idle"    \* nobody logs into a dying logger
    /\ hobj' = "destroyed" /\ NextOp(s)
    /\ UNCHANGED <<lm, hm, tptr, wptr, thr, wobj, queue, pending, app, hooked, stale, pc, cur, todo, inPipe, ctr, rd,
                   delivered, accepted, ghost>>

AppDestroy(s) ==
    /\ pc[s] = "idle" /\ Op(s) = "appDestroy"
    /\ conf.safeEnv => ~tptr
    /\ app' = "dead" /\ hooked' = FALSE /\ stale' = 0 /\ NextOp(s)
    /\ UNCHANGED <<lm, hm, tptr, wptr, thr, wobj, queue, pending, hobj, pc, cur, todo, inPipe, ctr, rd,
                   delivered, accepted, ghost>>

---------------------------------------------------------------------------
Init ==
    /\ conf \in [useLogger : BOOLEAN, recheck : BOOLEAN, safeEnv : BOOLEAN, locks : BOOLEAN, eager : BOOLEAN, rt : BOOLEAN,
               disc : BOOLEAN, fatalEvery : 0..9, rehome : BOOLEAN]
    /\ lm = [owner |-> NoOne, depth |-> 0] /\ hm = NoOne
    /\ tptr = FALSE /\ wptr = FALSE /\ thr = "none" /\ wobj = "none"
    /\ queue = <<>> /\ pending = 0 /\ app = "none" /\ hooked = FALSE /\ hobj = "alive" /\ stale = 0
    /\ pc = [t \in Threads |-> IF t = W THEN "gone" ELSE "idle"]
    /\ cur = [t \in Threads |-> NoMsg]
    /\ inPipe = {} /\ ctr = 0 /\ rd = [t \in Threads |-> 0]
    /\ delivered = <<>> /\ accepted = <<>>
    /\ ghost = [crashed |-> FALSE, cleared |-> {}, stops |-> 0, returned |-> {}, pre |-> <<>>]

ProducerStep(t) ==
    CallBegin(t) \/ LockL(t) \/ LockH(t) \/ Branch(t) \/ Post(t) \/ UnlockH(t) \/ FlushBegin(t) \/ FlushEnd(t) \/ UnlockL(t) \/ CallEnd(t)
    \/ PipeEnter(t) \/ PipeRead(t) \/ PipeWrite(t) \/ PipeDeliver(t) \/ PipeExit(t)

WorkerStep ==
    WTake \/ WDiscard \/ WDec \/ WBack \/ WFinish
    \/ PipeEnter(W) \/ PipeRead(W) \/ PipeWrite(W) \/ PipeDeliver(W) \/ PipeExit(W)

StopperStep(s) ==
    RsEnter(s) \/ RsLock(s) \/ RsNoThread(s) \/ RsHasThread(s) \/ RsCheckBusy(s) \/ RsRelock(s) \/ RsCheckIdle(s)
    \/ RsQuit(s) \/ RsJoin(s) \/ RsClear(s) \/ RsUnlock(s) \/ MvLock(s) \/ MvSkip(s) \/ MvCreate(s) \/ MvUnlock(s)
    \/ AppCreate(s) \/ AppQuit(s) \/ AppDestroy(s) \/ AppSpin(s) \/ Free(s)

Next == /\ (\E t \in Producers : ProducerStep(t)) \/ WorkerStep \/ (\E s \in Stoppers : StopperStep(s))
        /\ UNCHANGED conf

Fairness ==
    /\ \A t \in Producers : WF_vars(ProducerStep(t) /\ UNCHANGED conf)
    /\ WF_vars(WorkerStep /\ UNCHANGED conf)
    /\ \A s \in Stoppers : WF_vars(StopperStep(s) /\ UNCHANGED conf)

---------------------------------------------------------------------------
\* Properties

\* C02
MutualExclusion == Cardinality(inPipe) <= 1
\* `delivered` only ever grows at its end, so it is enough to state these for the latest delivery: they
\* are invariants, hence were true of every earlier delivery when it was the latest one.
LastD == delivered[Len(delivered)]
NoDoubleDelivery == delivered # <<>> => \A i \in 1..(Len(delivered) - 1) : delivered[i].m # LastD.m
SeqConsecutive == delivered # <<>> => LastD.n = Len(delivered) - 1
\* each producer's messages reach the sink in the order it logged them  (a message is <<producer, index>>)
ProducerOrder ==
    delivered # <<>> =>
        \A i \in 1..(Len(delivered) - 1) : delivered[i].m[1] = LastD.m[1] => delivered[i].m[2] < LastD.m[2]
\* a logging call that has returned in synchronous mode has delivered its message
SyncDeliveredOnReturn ==
    \A t \in Producers : pc[t] = "oth.sync.end" => cur[t] \in DeliveredMsgs

\* C03
Async(s) == SelectSeq(s, LAMBDA d : d.async)
WorkerOnly == delivered # <<>> => LastD.async = (LastD.by = W)
\* the asynchronous deliveries follow the hand-off order: the k-th asynchronous delivery is the k-th accepted
\* message that was delivered asynchronously at all - stated for the latest one: every accepted message before
\* it has been delivered already or is never delivered asynchronously later (checked when it would be)
AsyncOrder ==
    (delivered # <<>> /\ LastD.async) =>
        /\ LastD.m \in Set(accepted)
        /\ LET k == CHOOSE j \in 1..Len(accepted) : accepted[j] = LastD.m
           IN  \A i \in 1..(Len(delivered) - 1) :
                   delivered[i].async => (CHOOSE j \in 1..Len(accepted) : accepted[j] = delivered[i].m) < k

\* a log call that returned before another began is delivered first (stated for the latest delivery: everything that
\* had returned when its call began, and that is delivered at all so far or was handed to the worker, came earlier)
RealTimeOrder ==
    delivered # <<>> =>
        LET b == LastD.m
            rec == SelectSeq(ghost.pre, LAMBDA r : r.m = b)
            before == IF rec = <<>> THEN {} ELSE rec[Len(rec)].before
        IN  \A a \in before : (a \in Set(accepted) \/ a \in DeliveredMsgs) =>
                \E i \in 1..(Len(delivered) - 1) : delivered[i].m = a

\* C04
\* when resetOwnThread has cleared the thread, everything accepted so far has been delivered
DrainBeforeStop ==
    \A s \in Stoppers : pc[s] = "rs.cleared" => Set(accepted) \subseteq DeliveredMsgs
NoUseAfterFree == ~ghost.crashed
\* a producer that logs while the logger is stopped (no worker) delivers synchronously, on its own thread
LateMessagesSync == (delivered # <<>> /\ ~LastD.async) => LastD.by = LastD.m[1]
\* the application never quits past a running logger thread without a hook that stops it
QuitFindsHook == [][\A s \in Stoppers : (pc[s] = "idle" /\ script[s] # <<>> /\ Head(script[s]) = "execQuit" /\ script'[s] # script[s])
                                          => (tptr => hooked)]_vars
\* every stop request returns
ResetTerminates == \A s \in Stoppers : (pc[s] = "rs.enter") ~> (pc[s] = "idle")
\* finally everything that was logged has been delivered exactly once
Done == (\A t \in Producers : todo[t] = <<>> /\ pc[t] = "idle") /\ (\A s \in Stoppers : script[s] = <<>> /\ pc[s] = "idle")
AllDeliveredAtEnd == (Done /\ ~tptr) => Set(accepted) \subseteq DeliveredMsgs

TypeOK ==
    /\ pending >= 0
    /\ hm \in Threads \cup {NoOne}
    /\ lm.depth >= 0
=============================================================================
