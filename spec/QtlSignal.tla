------------------------------ MODULE QtlSignal ------------------------------
(***************************************************************************)
(* SignalSink (sinks/signalsink.cpp, SimplePipeline::sendToSignal): a sink *)
(* that hands every message to the slots connected to its signal           *)
(* message(QtLogger::LogMessage).  Beyond the listed properties; it is the *)
(* usual way a log view in the GUI thread is fed by an asynchronous        *)
(* logger, and it relies on the same deep copy of LogMessage as the        *)
(* hand-off of C03.                                                        *)
(*                                                                         *)
(* Qt's rule for the default (auto) connection: the slot is called         *)
(* directly, inside emit, when the EMITTING thread is the thread the       *)
(* receiver lives in; otherwise a copy of the arguments is posted to the   *)
(* receiver's thread and the slot runs there when its event loop gets to   *)
(* it, posted calls in the order they were posted.                         *)
(*                                                                         *)
(* Threads are names; a message is whatever record the harness logs (its   *)
(* fields as the emitting handler saw them).                               *)
(***************************************************************************)
EXTENDS Naturals, Sequences, SequencesExt, FiniteSets

CONSTANT Recv            \* the thread the receiver object lives in

VARIABLES posted,        \* calls posted to the receiver's thread, oldest first
          inEmit,        \* per thread: the message whose emit is under way ("none" when outside emit)
          emitted,       \* ghost: every message handed to the sink, in the order of the emits
          seen           \* ghost: every slot invocation [m, by]

svars == <<posted, inEmit, emitted, seen>>

None == [none |-> TRUE]

SInit(threads) == posted = <<>> /\ inEmit = [t \in threads |-> None] /\ emitted = <<>> /\ seen = <<>>

\* SignalSink::send on thread t: Q_EMIT message(m)
Emit(t, m) ==
    /\ inEmit[t] = None
    /\ emitted' = Append(emitted, m)
    /\ IF t = Recv
       THEN inEmit' = [inEmit EXCEPT ![t] = m] /\ UNCHANGED posted            \* the slot runs now, inside emit
       ELSE posted' = Append(posted, m) /\ UNCHANGED inEmit                   \* a copy travels to the receiver's thread
    /\ UNCHANGED seen

\* the slot, called directly by the emitting thread
DirectSlot(t, m) ==
    /\ t = Recv /\ inEmit[t] = m
    /\ seen' = Append(seen, [m |-> m, by |-> t])
    /\ inEmit' = [inEmit EXCEPT ![t] = None]
    /\ UNCHANGED <<posted, emitted>>

\* the slot, called by the receiver's event loop for the oldest posted call
QueuedSlot(t, m) ==
    /\ t = Recv /\ posted # <<>> /\ Head(posted) = m
    /\ inEmit[t] = None                           \* not while the receiver thread is itself inside an emit
    /\ seen' = Append(seen, [m |-> m, by |-> t])
    /\ posted' = Tail(posted)
    /\ UNCHANGED <<inEmit, emitted>>

---------------------------------------------------------------------------
\* A message is a record with at least: id (unique), src (the emitting thread) and the fields the handler saw.
SeenMsgs == [i \in 1..Len(seen) |-> seen[i].m]
From(seq, t) == SelectSeq(seq, LAMBDA m : m.src = t)
InFlight == {t \in DOMAIN inEmit : inEmit[t] # None}

\* every slot invocation runs on the thread the receiver lives in, whoever emitted
SlotThread == \A i \in 1..Len(seen) : seen[i].by = Recv
\* nothing is invented, lost or delivered twice: every emitted message is with the slot, in the receiver's queue,
\* or in the middle of a direct call
Conservation == Len(emitted) = Len(seen) + Len(posted) + Cardinality(InFlight)
\* the slot sees the messages of one emitting thread in the order that thread emitted them, each exactly as it
\* was emitted (the records are compared whole: every field of the copy equals the original)
PerThreadOrder == \A t \in DOMAIN inEmit : IsPrefix(From(SeenMsgs, t), From(emitted, t))
\* a direct call is over before emit returns: outside an emit, the receiver thread's own messages have all been seen
DirectIsSynchronous == (Recv \in DOMAIN inEmit /\ inEmit[Recv] = None) => From(SeenMsgs, Recv) = From(emitted, Recv)
=============================================================================
