SPECIFICATION TraceSpec
INVARIANT OnePostPerMessage
POSTCONDITION TraceAccepted
CHECK_DEADLOCK FALSE
