--------------------------- MODULE Trace_Pipeline ---------------------------
(***************************************************************************)
(* Trace validation of QtlPipeline against executions of the real classes  *)
(* recorded by harness/drv_pipeline.cpp.  Builder events carry the         *)
(* resulting handlers() list; evaluation events carry the message state    *)
(* (formatted flag/text, attributes) every observable handler is called    *)
(* with.  Steps the harness cannot see (null entries, entering/leaving     *)
(* nested pipelines, built-in filters and counters) are taken by the spec  *)
(* itself (Settle); they are deterministic, so validation stays linear.    *)
(***************************************************************************)
EXTENDS QtlPipeline, Json, IOUtils

TraceLog == ndJsonDeserialize(IOEnv.TRACE)

VARIABLE l
tvars == <<vars, l>>

IsEvent(e) == l <= Len(TraceLog) /\ TraceLog[l].e = e /\ l' = l + 1
ev == TraceLog[l]

Desc(d) == IF d.kind = "pipe" THEN [kind |-> "pipe", scoped |-> d.scoped, items |-> <<>>] ELSE d

TInit == Init /\ l = 1

TReset ==
    /\ IsEvent("Reset")
    /\ tbl' = <<>> /\ parent' = <<>> /\ root' = 0 /\ hst' = <<>>
    /\ stack' = <<>> /\ cur' = NoMsg /\ out' = <<>>
    /\ ref' = [hst |-> <<>>, out |-> <<>>, agree |-> TRUE]
    /\ nmsg' = 0

TNew == IsEvent("New") /\ ev.id = Len(tbl) + 1 /\ NewHandler(Desc(ev.d))

TAppend == IsEvent("Append") /\ AppendItem(ev.p, ev.h) /\ tbl'[ev.p].items = ev.items

TAppendList == IsEvent("AppendList") /\ AppendList(ev.p, ev.hs) /\ tbl'[ev.p].items = ev.items

TFluent == IsEvent("Fluent") /\ ev.id = Len(tbl) + 1 /\ FluentLeaf(ev.p, ev.d)
           /\ tbl'[ev.p].items = ev.items

TChild == IsEvent("Child") /\ ev.id = Len(tbl) + 1 /\ ev.same /\ Child(ev.p)
          /\ tbl'[ev.p].items = ev.items

TEnd == IsEvent("End") /\ ev.ret = EndOf(ev.p) /\ UNCHANGED vars

TRemove == IsEvent("Remove") /\ RemoveItem(ev.p, ev.h) /\ tbl'[ev.p].items = ev.items

TClear == IsEvent("Clear") /\ ClearItems(ev.p) /\ tbl'[ev.p].items = ev.items

TRoot == IsEvent("Root") /\ SetRoot(ev.p)

\* SimplePipeline::flush() on pipeline ev.p: the sinks whose flush() ran, in order
TFlush == IsEvent("Flush") /\ ev.sinks = FlushWalk(ev.p) /\ UNCHANGED vars

TStart == IsEvent("Start") /\ Start([type |-> ev.type, text |-> ev.text, cat |-> ev.cat])

\* an observable handler was called: after the unobservable steps the machine must be exactly at that
\* handler, with exactly the message state the handler saw
TH ==
    /\ IsEvent("H")
    /\ cur.id # 0
    /\ LET S == Settle(Here)
       IN  /\ Len(S.stack) > 0
           /\ CurItem(S) = ev.h
           /\ S.cur.fmt = ev.fmt
           /\ S.cur.attrs = AttrsOf(ev.attrs)
           /\ FmtText(S.cur) = ev.text
           /\ S.cur.text = ev.raw
           /\ Become(DoLeaf(S))
    /\ UNCHANGED <<tbl, parent, root, ref, nmsg>>

\* root->process() returned: nothing observable was left to run, it returned true, and the message
\* object carries the state the spec predicts
TFinish ==
    /\ IsEvent("Finish")
    /\ cur.id # 0
    /\ ev.ret
    /\ LET S == Settle(Here)
       IN  /\ Len(S.stack) = 0
           /\ S.cur.fmt = ev.fmt
           /\ S.cur.attrs = AttrsOf(ev.attrs)
           /\ S.cur.type = ev.type
           /\ FinishFrom(S)

TNext == TReset \/ TNew \/ TAppend \/ TAppendList \/ TFluent \/ TChild \/ TEnd \/ TRemove \/ TClear
         \/ TRoot \/ TFlush \/ TStart \/ TH \/ TFinish

TraceSpec == TInit /\ [][TNext]_tvars

TraceAccepted ==
    LET d == TLCGet("stats").diameter
    IN  /\ PrintT(<<"TRACE_MATCHED", d - 1, Len(TraceLog)>>)
        /\ d - 1 = Len(TraceLog)
=============================================================================
