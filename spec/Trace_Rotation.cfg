SPECIFICATION TraceSpec
CONSTANT BufCap = 16384
INVARIANT TypeOK
INVARIANT ReadBackIsHistory
INVARIANT CountBound
INVARIANT SurvivorsAreRecentSuffix
INVARIANT NoRetentionWhenUnlimited
INVARIANT NoRotationWhenOne
INVARIANT ForeignUntouched
INVARIANT SizeBound
INVARIANT GzFaithful
INVARIANT DaysApart
INVARIANT NameCarriesDay
INVARIANT FlushedRecoverable
INVARIANT NoDuplicates
PROPERTY T_OrigRemovedOnlyAfterGzClosed
PROPERTY T_NamesNeverReused
POSTCONDITION TraceAccepted
CHECK_DEADLOCK FALSE
