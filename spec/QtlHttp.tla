------------------------------- MODULE QtlHttp -------------------------------
(***************************************************************************)
(* HttpSink (sinks/httpsink.cpp, SimplePipeline::sendToHttp; built with    *)
(* QTLOGGER_NETWORK).  Beyond the listed properties: the sink the Sentry   *)
(* events of C18 leave the process through.                                *)
(*                                                                         *)
(* Every message handed to the sink becomes ONE HTTP POST to the           *)
(* configured URL whose body is the message's formatted text (the raw      *)
(* text when nothing formatted it) in UTF-8, with the Content-Type the     *)
(* caller configured - "text/plain; charset=utf-8" when none was - and     *)
(* the caller's other headers.  QNetworkAccessManager may use several      *)
(* connections, so requests are not required to arrive in the order the    *)
(* messages were sent: the collector sees the same bodies as a multiset.   *)
(* Bodies are sequences of bytes.                                          *)
(***************************************************************************)
EXTENDS Naturals, Sequences, FiniteSets

VARIABLES conf,        \* [target, ctype, hdrs]: request target, content type, extra headers (name -> value)
          waiting,     \* bodies handed to the sink whose request has not been seen yet
          nsent, ngot  \* ghosts: counters

hvars == <<conf, waiting, nsent, ngot>>

DefaultCType == "text/plain; charset=utf-8"

HInit(c) == conf = c /\ waiting = <<>> /\ nsent = 0 /\ ngot = 0

\* HttpSink::send
Send(body) == waiting' = Append(waiting, body) /\ nsent' = nsent + 1 /\ UNCHANGED <<conf, ngot>>

RemoveAt(s, i) == SubSeq(s, 1, i - 1) \o SubSeq(s, i + 1, Len(s))

\* the collector receives a request
Request(r) ==
    /\ r.method = "POST"
    /\ r.target = conf.target
    /\ r.ctype = conf.ctype
    /\ \A h \in DOMAIN conf.hdrs : h \in DOMAIN r.hdrs /\ r.hdrs[h] = conf.hdrs[h]
    /\ \E i \in 1..Len(waiting) :
          /\ waiting[i] = r.body                         \* the body is one that was sent and not yet received
          /\ waiting' = RemoveAt(waiting, i)
    /\ ngot' = ngot + 1
    /\ UNCHANGED <<conf, nsent>>

\* nothing is posted twice or invented: the requests seen so far plus those still under way are the messages sent
OnePostPerMessage == ngot + Len(waiting) = nsent
\* at rest every message has arrived
Quiescent == waiting = <<>> /\ ngot = nsent
=============================================================================
