SPECIFICATION MCSpec
CONSTANTS
    BufCap = 3
    Ls = {0}
    Ns = {0}
    Opts = {0}
    Sizes = {1}
    MaxSends = 1
    MaxDay = 1
    MaxRestarts = 1
    MaxCrash = 0
    MaxFault = 0
    MaxGzWrites = 1
    Ticks = FALSE
    Fatal = TRUE
    FlushOnFatal = FALSE
    ZoneBack = FALSE
    ZoneTies = FALSE
INVARIANT FatalDurableInv
CHECK_DEADLOCK FALSE
