------------------------------- MODULE QtlJson -------------------------------
(***************************************************************************)
(* What JsonFormatter (formatters/jsonformatter.cpp) and SentryFormatter   *)
(* (formatters/sentryformatter.cpp) owe their reader.  Properties C13, C18.*)
(*                                                                         *)
(* JSON values are abstract: [t |-> "s", v |-> code units], [t |-> "n",    *)
(* v |-> decimal text as code units] (numbers up to 2^53 do not fit TLC's  *)
(* integers), [t |-> "b", v |-> BOOLEAN], [t |-> "z"] (null), [t |-> "a",  *)
(* v |-> sequence of values], [t |-> "o", v |-> sequence of [k, v] sorted  *)
(* by key].  Whether a byte string IS one JSON value, and which one, is    *)
(* decided by the projection (an independent parser); this module decides  *)
(* which value it has to be.                                               *)
(* A message m is [type, text, cat, file, func, line, attrs]; attrs is a   *)
(* sequence of [k, v] sorted by key, v in the same abstract form.          *)
(***************************************************************************)
EXTENDS Integers, Sequences, FiniteSets, SequencesExt, TLC

Str(u) == [t |-> "s", v |-> u]
U(s) == s       \* code units are written as tuples of numbers

\* ASCII helpers
Digits(n) == IF n < 10 THEN <<48 + n>> ELSE LET RECURSIVE D(_) D(k) == IF k = 0 THEN <<>> ELSE D(k \div 10) \o <<48 + (k % 10)>> IN D(n)
Num(n) == [t |-> "n", v |-> IF n < 0 THEN <<45>> \o Digits(-n) ELSE Digits(n)]
Pad2(n) == <<48 + (n \div 10), 48 + (n % 10)>>
Pad4(n) == <<48 + (n \div 1000), 48 + ((n \div 100) % 10), 48 + ((n \div 10) % 10), 48 + (n % 10)>>

KeysOf(pairs) == {pairs[i].k : i \in 1..Len(pairs)}
Get(pairs, key) == (CHOOSE i \in 1..Len(pairs) : pairs[i].k = key)
Val(pairs, key) == pairs[Get(pairs, key)].v
Has(pairs, key) == key \in KeysOf(pairs)
NoDupKeys(pairs) == \A i, j \in 1..Len(pairs) : pairs[i].k = pairs[j].k => i = j

\* key names as code units
K_type == <<116,121,112,101>>           K_line == <<108,105,110,101>>       K_file == <<102,105,108,101>>
K_function == <<102,117,110,99,116,105,111,110>>    K_category == <<99,97,116,101,103,111,114,121>>
K_message == <<109,101,115,115,97,103,101>>         K_time == <<116,105,109,101>>
K_threadId == <<116,104,114,101,97,100,73,100>>
BuiltinKeys == {K_type, K_line, K_file, K_function, K_category, K_message, K_time, K_threadId}

TypeName(t) == CASE t = "debug" -> <<100,101,98,117,103>> [] t = "info" -> <<105,110,102,111>>
                 [] t = "warning" -> <<119,97,114,110,105,110,103>> [] t = "critical" -> <<99,114,105,116,105,99,97,108>>
                 [] t = "fatal" -> <<102,97,116,97,108>>

---------------------------------------------------------------------------
\* C13.  `o` is the parsed output: [ok (one syntactically valid JSON value, nothing else), top (pairs of the top-level
\* object), nl (line breaks in the raw text)]
JsonObligations(m, compact, o) ==
    /\ o.ok /\ NoDupKeys(o.top)
    \* exactly the built-in fields and the custom attributes
    /\ KeysOf(o.top) = BuiltinKeys \cup KeysOf(m.attrs)
    \* from which the message is recovered exactly
    /\ Val(o.top, K_type) = Str(TypeName(m.type))
    /\ Val(o.top, K_message) = Str(m.text)
    /\ Val(o.top, K_category) = Str(m.cat)
    /\ Val(o.top, K_file) = Str(m.file)
    /\ Val(o.top, K_function) = Str(m.func)
    /\ Val(o.top, K_line) = Num(m.line)
    /\ Val(o.top, K_time).t = "s" /\ Val(o.top, K_threadId).t = "n"
    /\ \A i \in 1..Len(m.attrs) : Val(o.top, m.attrs[i].k) = m.attrs[i].v
    \* compact = one line
    /\ compact => o.nl = 0

---------------------------------------------------------------------------
\* C18
SentryLevel(t) == CASE t = "debug" -> <<100,101,98,117,103>> [] t = "info" -> <<105,110,102,111>>
                    [] t = "warning" -> <<119,97,114,110,105,110,103>> [] t = "critical" -> <<101,114,114,111,114>>
                    [] t = "fatal" -> <<102,97,116,97,108>>
DEFAULT == <<100,101,102,97,117,108,116>>
IsHex(c) == (c >= 48 /\ c <= 57) \/ (c >= 97 /\ c <= 102)
\* yyyy-MM-ddThh:mm:ssZ
IsoUtc(t) == Pad4(t[1]) \o <<45>> \o Pad2(t[2]) \o <<45>> \o Pad2(t[3]) \o <<84>> \o Pad2(t[4]) \o <<58>> \o Pad2(t[5])
             \o <<58>> \o Pad2(t[6]) \o <<90>>

K(s) == s
\* attribute names with a dedicated slot: name -> <<container, key>>
Routed == { <<<<97,112,112,110,97,109,101>>, "tags", <<97,112,112,95,110,97,109,101>> >>,                         \* appname -> tags.app_name
            <<<<97,112,112,118,101,114,115,105,111,110>>, "tags", <<97,112,112,95,118,101,114,115,105,111,110>> >>, \* appversion -> tags.app_version
            <<<<111,115,95,110,97,109,101>>, "os", <<110,97,109,101>> >>,                                           \* os_name -> contexts.os.name
            <<<<111,115,95,118,101,114,115,105,111,110>>, "os", <<118,101,114,115,105,111,110>> >>,                  \* os_version -> contexts.os.version
            <<<<107,101,114,110,101,108,95,118,101,114,115,105,111,110>>, "os", <<107,101,114,110,101,108,95,118,101,114,115,105,111,110>> >>,
            <<<<98,117,105,108,100,95,97,98,105>>, "os", <<98,117,105,108,100>> >>,                                  \* build_abi -> contexts.os.build
            <<<<99,112,117,95,97,114,99,104>>, "device", <<97,114,99,104>> >>,                                       \* cpu_arch -> contexts.device.arch
            <<<<104,111,115,116,95,110,97,109,101>>, "device", <<110,97,109,101>> >> }                               \* host_name -> contexts.device.name
RoutedNames == {r[1] : r \in Routed}
\* a slot holds text: a value that is not a string is intact there as the value itself or as its usual text
TRUE_TXT == <<116,114,117,101>>
FALSE_TXT == <<102,97,108,115,101>>
Intact(slotValue, v) ==
    \/ slotValue = v
    \/ v.t = "n" /\ slotValue = Str(v.v)
    \/ v.t = "b" /\ slotValue = Str(IF v.v THEN TRUE_TXT ELSE FALSE_TXT)
RouteOf(name) == CHOOSE r \in Routed : r[1] = name

\* `e` is the parsed event: [ok, id, ts, level, haslogger, logger, formatted, fp (sequence of values), tags, extra, os,
\* device (pair lists; empty when the object is absent)]
SentryObligations(m, utc, e, seenIds) ==
    /\ e.ok
    /\ Len(e.id) = 32 /\ \A i \in 1..32 : IsHex(e.id[i])
    /\ e.id \notin seenIds                                               \* fresh
    /\ e.ts = IsoUtc(utc)                                                \* message time, UTC, to the second
    /\ e.level = SentryLevel(m.type)
    /\ e.formatted = Str(m.text)
    /\ e.haslogger = (m.cat # <<>> /\ m.cat # DEFAULT)
    /\ e.haslogger => e.logger = Str(m.cat)
    /\ e.fp = << Str(SentryLevel(m.type)), Str(IF m.cat = <<>> THEN DEFAULT ELSE m.cat),
                 Str(SubSeq(m.text, 1, IF Len(m.text) < 100 THEN Len(m.text) ELSE 100)) >>
    \* every custom attribute exactly once: in its slot, or under extra
    /\ NoDupKeys(e.extra) /\ NoDupKeys(e.tags) /\ NoDupKeys(e.os) /\ NoDupKeys(e.device)
    /\ \A i \in 1..Len(m.attrs) :
          LET a == m.attrs[i] IN
          IF a.k \in RoutedNames
          THEN LET r == RouteOf(a.k)
                   box == CASE r[2] = "tags" -> e.tags [] r[2] = "os" -> e.os [] r[2] = "device" -> e.device
               IN  Has(box, r[3]) /\ Intact(Val(box, r[3]), a.v) /\ ~Has(e.extra, a.k)
          ELSE Has(e.extra, a.k) /\ Val(e.extra, a.k) = a.v
    \* and nothing is filed under a slot that was not given
    /\ \A r \in Routed :
          (r[1] \notin KeysOf(m.attrs)) =>
              LET box == CASE r[2] = "tags" -> e.tags [] r[2] = "os" -> e.os [] r[2] = "device" -> e.device
              IN  ~Has(box, r[3])

\* sentry.h (beyond the listed properties): where the events go.  A DSN https://<key>@<host>/<project> - or the three
\* parts given separately, or found in the environment - names the store endpoint of that project; the events are
\* sent as JSON.  Strings are TLA+ strings here (the parts are plain ASCII identifiers).
SentryUrl(host, project, key) == "https://" \o host \o "/api/" \o project \o "/store/?sentry_version=7&sentry_key=" \o key
SentryDsn(host, project, key) == "https://" \o key \o "@" \o host \o "/" \o project
SentryContentType == "application/json; charset=utf-8"
=============================================================================
