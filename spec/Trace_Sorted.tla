---------------------------- MODULE Trace_Sorted ----------------------------
(***************************************************************************)
(* Trace validation for QtlSorted: every line of the ndjson trace recorded *)
(* by harness/drv_sorted.cpp on the REAL SortedPipeline must be a step of  *)
(* QtlSorted's actions, and the logged handler list must be the spec's.    *)
(* The C17 invariants are evaluated in every state of the real execution.  *)
(***************************************************************************)
EXTENDS QtlSorted, Json, IOUtils, TLC

TraceLog == ndJsonDeserialize(IOEnv.TRACE)

VARIABLE l
tvars == <<hs, next, ncalls, made, l>>

IsEvent(e) == l <= Len(TraceLog) /\ TraceLog[l].e = e /\ l' = l + 1

ev == TraceLog[l]

\* the list the implementation reports after the call
Logged == [k \in 1..Len(ev.hs) |-> [c |-> ev.hs[k].c, i |-> ev.hs[k].i]]

TInit == Init /\ l = 1

TReset == IsEvent("Reset") /\ hs' = <<>> /\ next' = 1 /\ ncalls' = 0 /\ made' = <<>>

TCall ==
    /\ IsEvent("Call")
    /\ \/ ev.op = "AppendH" /\ AppendH(ev.c)
       \/ ev.op = "SetFormatter" /\ SetFormatter
       \/ ev.op = "ReAppendH" /\ ReAppendH(ev.i) /\ made[ev.i] = ev.c         \* an object that was passed before
       \/ ev.op = "ReSetFormatter" /\ ReSetFormatter(ev.i)
       \/ ev.op = "AppendNull" /\ AppendNull
       \/ ev.op = "Clear" /\ Clear(ev.c)
       \/ ev.op = "ClearAll" /\ ClearAll
    /\ [k \in 1..Len(hs') |-> [c |-> hs'[k].c, i |-> hs'[k].i]] = Logged

\* handlers run in list order (ties C17's "hence ..." clause to what actually executes)
TExec ==
    /\ IsEvent("Exec")
    /\ ev.order = [k \in 1..Len(hs) |-> hs[k].i]
    /\ UNCHANGED <<hs, next, ncalls, made>>

TNext == TReset \/ TCall \/ TExec

TraceSpec == TInit /\ [][TNext]_tvars

TraceAccepted ==
    LET d == TLCGet("stats").diameter
    IN  /\ PrintT(<<"TRACE_MATCHED", d - 1, Len(TraceLog)>>)
        /\ d - 1 = Len(TraceLog)
=============================================================================
