---------------------------- MODULE Trace_Http ----------------------------
(* Validation of recorded HttpSink executions (harness/drv_http.cpp: a collector on the loopback interface) against
   QtlHttp. *)
EXTENDS QtlHttp, Json, IOUtils, TLC

TraceLog == ndJsonDeserialize(IOEnv.TRACE)
VARIABLE l
ev == TraceLog[l]
IsEvent(e) == l <= Len(TraceLog) /\ TraceLog[l].e = e /\ l' = l + 1

TInit == l = 1 /\ HInit([target |-> "", ctype |-> DefaultCType, hdrs |-> [x \in {} |-> ""]])
TReset == /\ IsEvent("Reset")
          /\ conf' = [target |-> ev.target, ctype |-> ev.ctype, hdrs |-> ev.hdrs]
          /\ waiting' = <<>> /\ nsent' = 0 /\ ngot' = 0
TSend == IsEvent("Send") /\ Send(ev.body)
TReq == IsEvent("Req") /\ Request(ev)
TDone == IsEvent("Done") /\ Quiescent /\ UNCHANGED hvars
TraceSpec == TInit /\ [][TReset \/ TSend \/ TReq \/ TDone]_<<hvars, l>>
TraceAccepted ==
    LET d == TLCGet("stats").diameter
    IN  /\ PrintT(<<"TRACE_MATCHED", d - 1, Len(TraceLog)>>)
        /\ d - 1 = Len(TraceLog)
=============================================================================
