SPECIFICATION MCSpec
CONSTANTS Producers = {"p1", "p2", "p3"}
          Stoppers = {"M"}
          UseLogger = FALSE
          RecheckThread = TRUE
          SafeEnv = TRUE
          Locks = TRUE
          RealTime = FALSE
          Disconnect = TRUE
          FatalEvery = 0
          NMsgs = 2
          ScriptSet = {"sync"}
          Script2Set = {"none"}
INVARIANT TypeOK
INVARIANT MutualExclusion
INVARIANT NoDoubleDelivery
INVARIANT SeqConsecutive
INVARIANT ProducerOrder
INVARIANT SyncDeliveredOnReturn
INVARIANT WorkerOnly
INVARIANT AsyncOrder
INVARIANT RealTimeOrder
INVARIANT LateMessagesSync
INVARIANT DrainBeforeStop
INVARIANT NoUseAfterFree
INVARIANT AllDeliveredAtEnd

CHECK_DEADLOCK FALSE
