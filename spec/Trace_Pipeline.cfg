SPECIFICATION TraceSpec
INVARIANT Agree
INVARIANT SinkTextRule
POSTCONDITION TraceAccepted
CHECK_DEADLOCK FALSE
