SPECIFICATION MCSpec
CONSTANTS NP = 2
          MaxItems = 4
          MaxMsgs = 1
          MenuName = "small"
INVARIANT Agree
INVARIANT SinkTextRule
PROPERTY ChildNeverStopsParent
PROPERTY ScopedInvisible
PROPERTY RejectionIsLocal
PROPERTY SeqMonotone
CHECK_DEADLOCK FALSE
