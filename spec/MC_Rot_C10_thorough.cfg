SPECIFICATION MCSpec
CONSTANTS
    BufCap = 3
    Ls = {0, 3}
    Ns = {0, 2, 3}
    Opts = {0, 1, 2, 4, 7}
    Sizes = {1, 2, 4}
    MaxSends = 4
    MaxDay = 1
    MaxRestarts = 1
    MaxCrash = 1
    MaxFault = 1
    MaxGzWrites = 2
    Ticks = FALSE
    Fatal = FALSE
    FlushOnFatal = TRUE
    ZoneBack = FALSE
    ZoneTies = FALSE
INVARIANT TypeOK
INVARIANT ReadBackIsHistory
INVARIANT CountBound
INVARIANT SurvivorsAreRecentSuffix
INVARIANT NoRetentionWhenUnlimited
INVARIANT NoRotationWhenOne
INVARIANT ForeignUntouched
INVARIANT SizeBound
INVARIANT GzFaithful
INVARIANT DaysApart
INVARIANT NameCarriesDay
INVARIANT FlushedRecoverable
INVARIANT NoDuplicates
INVARIANT FatalDurableInv
PROPERTY OrigRemovedOnlyAfterGzClosed
PROPERTY NamesNeverReused
CHECK_DEADLOCK FALSE
