---------------------------- MODULE QtlCategory ----------------------------
(***************************************************************************)
(* CategoryFilter (src/qtlogger/filters/categoryfilter.cpp), property C15. *)
(*                                                                         *)
(* A rule is [pat, typed, on]: `pat` a category pattern (code units, 42 =  *)
(* '*' is the wildcard), `typed` one of "debug","info","warning",          *)
(* "critical" or "" (applies to every type), `on` the verdict.             *)
(* Ordered evaluation: the LAST matching rule decides; no match => pass.   *)
(***************************************************************************)
EXTENDS QtlText, FiniteSets

Star == 42

MsgTypes == {"debug", "info", "warning", "critical", "fatal"}
RuleTypes == {"debug", "info", "warning", "critical"}

\* wildcard match of pattern p against category s: '*' stands for any (possibly empty) run
RECURSIVE GlobAt(_, _, _, _)
GlobAt(p, s, i, j) ==
    IF i > Len(p) THEN j > Len(s)
    ELSE IF p[i] = Star
         THEN \E k \in j..(Len(s) + 1) : GlobAt(p, s, i + 1, k)
         ELSE j <= Len(s) /\ p[i] = s[j] /\ GlobAt(p, s, i + 1, j + 1)

Glob(p, s) == GlobAt(p, s, 1, 1)

RuleMatches(r, cat, type) == Glob(r.pat, cat) /\ (r.typed = "" \/ r.typed = type)

\* ordered evaluation, written as the code does it: fold left, last match wins
RECURSIVE VerdictFrom(_, _, _, _, _)
VerdictFrom(rules, k, cat, type, acc) ==
    IF k > Len(rules) THEN acc
    ELSE VerdictFrom(rules, k + 1, cat, type,
                     IF RuleMatches(rules[k], cat, type) THEN rules[k].on ELSE acc)

Verdict(rules, cat, type) == VerdictFrom(rules, 1, cat, type, TRUE)

\* the statement's formulation: "the last rule whose pattern and suffix match decides; a message no
\* rule matches passes"
VerdictStmt(rules, cat, type) ==
    LET M == {k \in 1..Len(rules) : RuleMatches(rules[k], cat, type)}
    IN  IF M = {} THEN TRUE ELSE rules[CHOOSE k \in M : \A j \in M : j <= k].on
=============================================================================
