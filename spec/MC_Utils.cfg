CONSTANT Names = {"default", "pretty", "A", "B", "empty"}
INIT UInit
NEXT UNext
INVARIANT TypeOK
PROPERTY RestoreSwaps
PROPERTY LibraryBelief
CHECK_DEADLOCK FALSE
