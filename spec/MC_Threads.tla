---------------------------- MODULE MC_Threads ----------------------------
(* Exhaustive configurations of QtlThreads: NMsgs messages per producer; the main thread "M" runs one of
   the lifecycle scripts selected by ScriptSet, an optional second stopper "S2" runs Script2. *)
EXTENDS QtlThreads

CONSTANTS NMsgs, ScriptSet, Script2Set, UseLogger, RecheckThread, SafeEnv, Locks, RealTime, Disconnect, FatalEvery

Scripts ==
    [ sync      |-> <<>>,                                                   \* never asynchronous
      quit      |-> <<"appCreate", "move", "execQuit", "appDestroy">>,      \* stop on application quit
      quit2     |-> <<"appCreate", "execQuit", "appDestroy">>,              \* ... with the move made by the second thread
      reset     |-> <<"appCreate", "move", "reset">>,                       \* explicit stop
      dtor      |-> <<"appCreate", "move", "execQuit", "appDestroy", "reset">>, \* quit, then the destructor's stop
      cycle     |-> <<"appCreate", "move", "reset", "move", "reset">>,      \* start/stop cycles
      dtorquit  |-> <<"appCreate", "move", "reset", "free", "execQuit", "appDestroy">>,   \* logger destroyed, then quit
      dtorspin  |-> <<"appCreate", "move", "reset", "free", "spin", "execQuit", "appDestroy">>,
      cyclequit |-> <<"appCreate", "move", "reset", "move", "execQuit", "appDestroy">>, \* a stale hook and a live one
      noexec    |-> <<"appCreate", "move", "appDestroy", "reset">>,         \* application destroyed without exec()
      noapp     |-> <<"move", "reset">>,
      inproc    |-> <<"appCreate", "move", "reset">>,                        \* what the in-process harness does ...
      inproc2   |-> <<"appCreate", "move", "reset", "move", "reset">> ]      \* ... with a second cycle                                   \* no application object at all

Scripts2 == [ none |-> <<>>, reset |-> <<"reset">>, move |-> <<"move">> ]

\* does moveToOwnThread() move the new thread object to the main thread (the code does; overridden by the witness)
MCRehome == TRUE
NoRehome == FALSE

MCInit ==
    /\ Init
    /\ conf = [useLogger |-> UseLogger, recheck |-> RecheckThread, safeEnv |-> SafeEnv, locks |-> Locks, eager |-> FALSE, rt |-> RealTime, disc |-> Disconnect, fatalEvery |-> FatalEvery, rehome |-> MCRehome]
    /\ todo = [t \in Producers |-> [i \in 1..NMsgs |-> <<t, i>>]]
    /\ \E a \in ScriptSet, b \in Script2Set :
          script = [s \in Stoppers |-> IF s = "M" THEN Scripts[a] ELSE Scripts2[b]]

\* used with -simulate to get complete behaviours out of TLC: "violated" when everything is over
NotFinished == ~(Done /\ ~tptr)

MCSpec == MCInit /\ [][Next]_vars
MCFairSpec == MCInit /\ [][Next]_vars /\ Fairness
=============================================================================
