SPECIFICATION MCSpec
CONSTANTS Producers = {"p1", "p2"}
          Stoppers = {"M", "S2"}
          UseLogger = TRUE
          RecheckThread = TRUE
          SafeEnv = TRUE
          Locks = TRUE
          RealTime = FALSE
          Disconnect = TRUE
          FatalEvery = 0
          NMsgs = 2
          ScriptSet = {"inproc", "inproc2"}
          Script2Set = {"none", "reset"}
INVARIANT NotFinished
CHECK_DEADLOCK FALSE
