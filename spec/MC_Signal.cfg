SPECIFICATION MCSpec
CONSTANTS
    Recv = "M"
    NMsgs = 3
INVARIANT SlotThread
INVARIANT Conservation
INVARIANT PerThreadOrder
INVARIANT DirectIsSynchronous
INVARIANT AllSeenAtEnd
CHECK_DEADLOCK FALSE
