---------------------------- MODULE MC_Pattern ----------------------------
(* Exhaustive sanity of the transcription in QtlPattern over a small universe: the width laws and the
   verbatim law for every value of <= MaxLen units over a 3-unit alphabet (one of them the fill unit) and
   every valid specification of width <= MaxW; and agreement of Format with a second, recursive formulation
   (Format2, which looks ahead instead of carrying a pending count) on every token list of <= MaxTok tokens
   from a menu that contains every token kind. *)
EXTENDS QtlPattern, FiniteSets

CONSTANTS MaxLen, MaxW, MaxTok

A == 97
F == 42      \* "*", also used as fill
X == 120

RECURSIVE SeqsUpTo(_, _)
SeqsUpTo(S, n) == IF n = 0 THEN {<<>>} ELSE LET r == SeqsUpTo(S, n - 1) IN r \cup {Append(s, c) : s \in r, c \in S}
Vals == SeqsUpTo({A, F, X}, MaxLen)

NoSpec == [on |-> FALSE, fill |-> 32, fillgiven |-> FALSE, align |-> "none", width |-> 0, bang |-> FALSE]
Specs == {NoSpec} \cup
         {[on |-> TRUE, fill |-> f, fillgiven |-> fg, align |-> al, width |-> w, bang |-> b] :
              f \in {32, F}, fg \in BOOLEAN, al \in {"<", ">", "^", "none"}, w \in 1..MaxW, b \in BOOLEAN}
ValidSpec(sp) == ~sp.on \/ (/\ (sp.align = "none") => (sp.bang /\ ~sp.fillgiven)       \* "5!"
                            /\ sp.fillgiven => sp.align # "none"
                            /\ ~sp.fillgiven => sp.fill = 32)
GoodSpecs == {sp \in Specs : ValidSpec(sp)}

\* second formulation: position i of the token list, output so far, current condition
RECURSIVE F2(_, _, _, _, _)
Enabled(cond, type) == cond = "" \/ cond = type
\* how many units the literal at position i loses to absent optional attributes right before it (looking back
\* over tokens that contribute nothing)
RECURSIVE Owed(_, _, _, _)
Owed(toks, i, type, condAt) ==
    IF i = 0 THEN 0
    ELSE LET tk == toks[i] IN
         IF tk.k \in {"if", "endif"} THEN Owed(toks, i - 1, type, condAt)
         ELSE IF ~Enabled(condAt[i], type) THEN Owed(toks, i - 1, type, condAt)
         ELSE IF tk.k = "attr" /\ ~tk.has THEN tk.m + Owed(toks, i - 1, type, condAt)
         ELSE IF tk.k = "lit" THEN 0
         ELSE IF Field(tk.val, tk.spec) = <<>> THEN Owed(toks, i - 1, type, condAt)
         ELSE 0
CondAt(toks) ==
    LET RECURSIVE C(_, _)
        C(i, cur) == IF i > Len(toks) THEN <<>>
                     ELSE LET nxt == IF toks[i].k = "if" THEN toks[i].type ELSE IF toks[i].k = "endif" THEN "" ELSE cur
                          IN  <<cur>> \o C(i + 1, nxt)
    IN  C(1, "")
F2(toks, i, out, type, condAt) ==
    IF i > Len(toks) THEN out
    ELSE LET tk == toks[i] IN
         IF tk.k \in {"if", "endif"} \/ ~Enabled(condAt[i], type) THEN F2(toks, i + 1, out, type, condAt)
         ELSE IF tk.k = "lit" THEN
              LET d == Owed(toks, i - 1, type, condAt)
              IN  F2(toks, i + 1, out \o (IF d >= Len(tk.text) THEN <<>> ELSE SubSeq(tk.text, d + 1, Len(tk.text))), type, condAt)
         ELSE IF tk.k = "attr" /\ ~tk.has THEN
              F2(toks, i + 1, IF tk.n > 0 /\ Len(out) >= tk.n THEN SubSeq(out, 1, Len(out) - tk.n) ELSE out, type, condAt)
         ELSE F2(toks, i + 1, out \o Field(tk.val, tk.spec), type, condAt)
Format2(toks, type) == F2(toks, 1, <<>>, type, CondAt(toks))

PadR == [on |-> TRUE, fill |-> F, fillgiven |-> TRUE, align |-> ">", width |-> 3, bang |-> TRUE]
Menu == { [k |-> "lit", text |-> <<A, X>>], [k |-> "lit", text |-> <<X>>],
          [k |-> "ph", val |-> <<A>>, spec |-> NoSpec], [k |-> "ph", val |-> <<>>, spec |-> NoSpec],
          [k |-> "ph", val |-> <<A, X, A, X>>, spec |-> PadR],
          [k |-> "attr", has |-> FALSE, val |-> <<>>, opt |-> TRUE, n |-> 1, m |-> 1, spec |-> NoSpec],
          [k |-> "attr", has |-> FALSE, val |-> <<>>, opt |-> TRUE, n |-> 0, m |-> 2, spec |-> NoSpec],
          [k |-> "attr", has |-> TRUE, val |-> <<F>>, opt |-> TRUE, n |-> 1, m |-> 1, spec |-> NoSpec],
          [k |-> "if", type |-> "debug"], [k |-> "endif"] }
TokLists == SeqsUpTo(Menu, MaxTok)

ASSUME FieldLaws == \A v \in Vals, sp \in GoodSpecs : WidthLaw(v, sp) /\ VerbatimLaw(v, sp)
ASSUME TwoFormulations == \A ts \in TokLists, ty \in {"debug", "info"} : Format(ts, ty) = Format2(ts, ty)
ASSUME Report == PrintT(<<"MC_PATTERN", Cardinality(Vals), Cardinality(GoodSpecs), Cardinality(TokLists)>>)

VARIABLE dummy
Spec == dummy = 0 /\ [][UNCHANGED dummy]_dummy
=========================================================================
\* %{func} on concrete signatures
ASSUME Func1 == CleanFunc(<<118, 111, 105, 100, 32, 77, 121, 67, 108, 97, 115, 115, 58, 58, 109, 121, 77, 101, 116, 104, 111, 100, 40, 105, 110, 116, 44, 32, 81, 83, 116, 114, 105, 110, 103, 41>>) = <<77, 121, 67, 108, 97, 115, 115, 58, 58, 109, 121, 77, 101, 116, 104, 111, 100>>
ASSUME Func2 == CleanFunc(<<105, 110, 116, 32, 109, 97, 105, 110, 40, 105, 110, 116, 44, 32, 99, 104, 97, 114, 42, 42, 41>>) = <<109, 97, 105, 110>>
ASSUME Func3 == CleanFunc(<<102>>) = <<102>> /\ CleanFunc(<<>>) = <<>>
ASSUME Func4 == CleanFunc(<<118, 105, 114, 116, 117, 97, 108, 32, 118, 111, 105, 100, 32, 65, 58, 58, 66, 58, 58, 114, 117, 110, 40, 41, 32, 99, 111, 110, 115, 116>>) = <<65, 58, 58, 66, 58, 58, 114, 117, 110>>
ASSUME Func5 == CleanFunc(<<70, 111, 111, 58, 58, 126, 70, 111, 111, 40, 41>>) = <<70, 111, 111, 58, 58, 126, 70, 111, 111>>
====
