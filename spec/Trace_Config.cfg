SPECIFICATION TraceSpec
PROPERTY T_RestoreReinstates
PROPERTY T_NewerForeignStays
INVARIANT ActiveIsAlive
POSTCONDITION TraceAccepted
CHECK_DEADLOCK FALSE
