SPECIFICATION TraceSpec
PROPERTY T_RestoreReinstates
PROPERTY T_NewerForeignStays
POSTCONDITION TraceAccepted
CHECK_DEADLOCK FALSE
