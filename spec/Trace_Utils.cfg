CONSTANT Names = {"default", "pretty", "A", "B", "empty"}
SPECIFICATION TraceSpec
POSTCONDITION TraceAccepted
CHECK_DEADLOCK FALSE
