------------------------------ MODULE QtlText ------------------------------
(***************************************************************************)
(* Text is a sequence of UTF-16 code units (naturals): QString length,     *)
(* truncation and comparison are defined on code units, and TLC has no     *)
(* character type.  Shared by QtlPipeline, QtlCategory, QtlPattern, ...    *)
(***************************************************************************)
EXTENDS Naturals, Sequences

Take(s, n) == SubSeq(s, 1, IF n < Len(s) THEN n ELSE Len(s))            \* QString::left(n)
Drop(s, n) == SubSeq(s, (IF n < Len(s) THEN n ELSE Len(s)) + 1, Len(s)) \* QString::mid(n)
LastN(s, n) == IF n >= Len(s) THEN s ELSE SubSeq(s, Len(s) - n + 1, Len(s)) \* QString::right(n)
ChopN(s, n) == IF n >= Len(s) THEN <<>> ELSE SubSeq(s, 1, Len(s) - n)   \* QString::chop(n)

Rep(c, n) == [k \in 1..n |-> c]                                         \* QString(n, c)

StartsWith(s, p) == Len(p) <= Len(s) /\ SubSeq(s, 1, Len(p)) = p
EndsWith(s, p) == Len(p) <= Len(s) /\ SubSeq(s, Len(s) - Len(p) + 1, Len(s)) = p
OccursAt(s, p, k) == k + Len(p) - 1 <= Len(s) /\ SubSeq(s, k, k + Len(p) - 1) = p
Contains(s, p) == \E k \in 1..(Len(s) + 1) : OccursAt(s, p, k)

\* ASCII case folding (for the case-insensitive regular-expression menu entries)
Lower(c) == IF c >= 65 /\ c <= 90 THEN c + 32 ELSE c
LowerSeq(s) == [k \in 1..Len(s) |-> Lower(s[k])]

Range(s) == {s[k] : k \in 1..Len(s)}

\* QString::number(n) for n >= 0
RECURSIVE DecDigits(_)
DecDigits(n) == IF n < 10 THEN <<48 + n>> ELSE DecDigits(n \div 10) \o <<48 + (n % 10)>>
=============================================================================
