SPECIFICATION MCFairSpec
CONSTANTS Producers = {"p1", "p2"}
          Stoppers = {"M"}
          UseLogger = TRUE
          RecheckThread = TRUE
          SafeEnv = TRUE
          Locks = TRUE
          RealTime = FALSE
          Disconnect = FALSE
          FatalEvery = 0
          NMsgs = 2
          ScriptSet = {"dtorquit"}
          Script2Set = {"none"}
INVARIANT TypeOK
INVARIANT MutualExclusion
INVARIANT NoDoubleDelivery
INVARIANT SeqConsecutive
INVARIANT ProducerOrder
INVARIANT SyncDeliveredOnReturn
INVARIANT WorkerOnly
INVARIANT AsyncOrder
INVARIANT RealTimeOrder
INVARIANT LateMessagesSync
INVARIANT DrainBeforeStop
INVARIANT NoUseAfterFree
INVARIANT AllDeliveredAtEnd

CHECK_DEADLOCK FALSE
