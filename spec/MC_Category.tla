---------------------------- MODULE MC_Category ----------------------------
(* Exhaustive sanity check of the reference itself: both formulations of the verdict agree on every
   rule list / category / type of a small universe, and the glob has the expected algebra. *)
EXTENDS QtlCategory, TLC

CONSTANTS MaxRules, MaxPat, MaxCat, TypedSet

Alpha == {97, 98, 46, Star}          \* a b . *
CatAlpha == {97, 98, 46}

SeqsUpTo(S, n) == UNION {[1..k -> S] : k \in 0..n}

Pats == SeqsUpTo(Alpha, MaxPat) \ {<<>>}
Cats == SeqsUpTo(CatAlpha, MaxCat)
Rules == [pat : Pats, typed : TypedSet, on : BOOLEAN]

VARIABLES rules, cat, type
vars == <<rules, cat, type>>

Init == /\ rules \in SeqsUpTo(Rules, MaxRules)
        /\ cat \in Cats
        /\ type \in {"debug", "critical", "fatal"}
Next == UNCHANGED vars
Spec == Init /\ [][Next]_vars

Agree == Verdict(rules, cat, type) = VerdictStmt(rules, cat, type)

NoRuleMeansPass == rules = <<>> => Verdict(rules, cat, type)

\* a typed rule never applies to fatal messages; "*" alone matches everything
GlobAlgebra ==
    /\ Glob(<<Star>>, cat)
    /\ Glob(cat, cat)
    /\ \A p \in Pats : (\A k \in 1..Len(p) : p[k] # Star) => (Glob(p, cat) <=> p = cat)
    /\ Glob(<<97, Star>>, cat) <=> (Len(cat) >= 1 /\ cat[1] = 97)
    /\ Glob(<<Star, 97>>, cat) <=> (Len(cat) >= 1 /\ cat[Len(cat)] = 97)
    /\ Glob(<<Star, 46, Star>>, cat) <=> (\E k \in 1..Len(cat) : cat[k] = 46)

LastAppendedWins ==
    \A r \in {x \in Rules : x.typed = ""} :
        RuleMatches(r, cat, type) => Verdict(rules \o <<r>>, cat, type) = r.on
=============================================================================
