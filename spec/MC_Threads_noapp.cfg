SPECIFICATION MCFairSpec
CONSTANTS Producers = {"p1"}
          Stoppers = {"M"}
          UseLogger = TRUE
          RecheckThread = TRUE
          SafeEnv = FALSE
          Locks = TRUE
          RealTime = FALSE
          Disconnect = TRUE
          FatalEvery = 0
          NMsgs = 2
          ScriptSet = {"noexec", "noapp"}
          Script2Set = {"none"}
INVARIANT TypeOK
INVARIANT MutualExclusion
INVARIANT NoDoubleDelivery
INVARIANT SeqConsecutive
INVARIANT ProducerOrder
INVARIANT SyncDeliveredOnReturn
INVARIANT WorkerOnly
INVARIANT AsyncOrder
INVARIANT RealTimeOrder
INVARIANT LateMessagesSync
INVARIANT DrainBeforeStop
INVARIANT NoUseAfterFree
INVARIANT AllDeliveredAtEnd
PROPERTY ResetTerminates
CHECK_DEADLOCK FALSE
