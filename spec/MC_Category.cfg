SPECIFICATION Spec
CONSTANTS MaxRules = 2
          MaxPat = 2
          MaxCat = 3
INVARIANT Agree
INVARIANT NoRuleMeansPass
INVARIANT GlobAlgebra
INVARIANT LastAppendedWins
CHECK_DEADLOCK FALSE
