SPECIFICATION TraceSpec
CONSTANTS
    Recv = "M"
INVARIANT SlotThread
INVARIANT Conservation
INVARIANT PerThreadOrder
POSTCONDITION TraceAccepted
CHECK_DEADLOCK FALSE
