--------------------------- MODULE Trace_Config ---------------------------
(* Validation of recorded executions against QtlConfig: configuration children (INI keys / one-line arguments with
   what arrived at stdout, stderr and the log file) and in-process histories of install / restore / foreign handler
   installations (the handler Qt calls after every step). *)
EXTENDS QtlConfig, Json, IOUtils

TraceLog == ndJsonDeserialize(IOEnv.TRACE)
VARIABLE l
ev == TraceLog[l]
IsEvent(e) == l <= Len(TraceLog) /\ TraceLog[l].e = e /\ l' = l + 1

TInit == l = 1 /\ IInit
TIni == IsEvent("Ini") /\ IniObligations(ev.keys, ev.msgs, ev.out) /\ UNCHANGED ivars
TOneLine == IsEvent("OneLine") /\ OneLineObligations(ev.hasPath, ev.msgs, ev.out) /\ UNCHANGED ivars
TReset == IsEvent("Reset") /\ cur' = "default" /\ saved' = "none" /\ first' = "none" /\ active' = "none" /\ alive' = Loggers
TOp == /\ IsEvent("Op")
       /\ CASE ev.op = "install" -> InstallBy("a")
            [] ev.op = "install2" -> InstallBy("b")
            [] ev.op = "restore" -> Restore
            [] ev.op \in {"f1", "f2"} -> Foreign(ev.op)
            [] ev.op = "kill" -> Kill("a")
            [] ev.op = "kill2" -> Kill("b")
            [] ev.op = "log" -> UNCHANGED ivars /\ ev.rcv = Receiver      \* a message through Qt's macros: who saw it
       /\ cur' = ev.cur
TraceSpec == TInit /\ [][TIni \/ TOneLine \/ TReset \/ TOp]_<<ivars, l>>
TraceAccepted ==
    LET d == TLCGet("stats").diameter
    IN  /\ PrintT(<<"TRACE_MATCHED", d - 1, Len(TraceLog)>>)
        /\ d - 1 = Len(TraceLog)
T_RestoreReinstates == [][ (l <= Len(TraceLog) /\ TraceLog[l].e = "Op") =>
                            ((saved # "none" /\ cur' # cur /\ saved' = "none") =>
                                (cur = "logger" /\ cur' \in {first, saved} /\ cur' # "logger")) ]_<<ivars, l>>
T_NewerForeignStays == [][ (l <= Len(TraceLog) /\ TraceLog[l].e = "Op") =>
                            ((saved # "none" /\ saved' = "none" /\ cur # "logger") => cur' = cur) ]_<<ivars, l>>
=============================================================================
