CONSTANTS
  Devs = {1, 2, 3}
  Sinks = {1, 2, 3, 4}
  Texts <- NoTexts
  Cats <- NoTexts
  Idents <- NoTexts
  conf <- TConfKeeps
SPECIFICATION TraceSpec
INVARIANTS DeviceIsItsLines SyslogPriorities IdentMemoryAlive
POSTCONDITION TraceAccepted
CHECK_DEADLOCK FALSE
