CONSTANTS
  Apps = {"o1/a1"}
  Vers = {""}
  H = {1, 2}
  MaxFresh = 3
  MaxWipes = 0
SPECIFICATION ESpecConc
CONSTRAINT Bound
INVARIANTS UuidPersistent
CHECK_DEADLOCK FALSE
