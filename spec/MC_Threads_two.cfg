SPECIFICATION MCSpec
CONSTANTS Producers = {"p1"}
          Stoppers = {"M", "S2"}
          UseLogger = TRUE
          RecheckThread = FALSE
          SafeEnv = TRUE
          Locks = TRUE
          RealTime = FALSE
          Disconnect = TRUE
          FatalEvery = 0
          NMsgs = 2
          ScriptSet = {"reset", "quit"}
          Script2Set = {"reset"}
INVARIANT TypeOK
INVARIANT MutualExclusion
INVARIANT NoDoubleDelivery
INVARIANT SeqConsecutive
INVARIANT ProducerOrder
INVARIANT SyncDeliveredOnReturn
INVARIANT WorkerOnly
INVARIANT AsyncOrder
INVARIANT RealTimeOrder
INVARIANT LateMessagesSync
INVARIANT DrainBeforeStop
INVARIANT NoUseAfterFree
INVARIANT AllDeliveredAtEnd

CHECK_DEADLOCK FALSE
