------------------------------- MODULE QtlEnv -------------------------------
(* The environment attribute handlers (attrhandlers/appinfoattrs.cpp, appuuidattr.cpp, sysinfoattrs.cpp;
   SimplePipeline::addAppInfo / addAppUuid / addSysInfo).  Beyond the listed properties: these are the handlers that
   put the application's identity on every message (the Sentry formatter of C18 routes appname / appversion /
   app_uuid / os_name ... into its dedicated slots).

   What the documentation (docs/api/attributes.md) promises:
     * AppInfoAttrs / SysInfoAttrs: "the attributes are captured once at construction time" - a handler keeps
       answering with what QCoreApplication / QSysInfo said when it was BUILT, whatever the application is renamed to
       later;
     * AppUuidAttr: the UUID "is created once on first use and persists across application restarts"; it is kept in
       the user's settings of (organization name, application name), key "app_uuid"; the attribute name is the
       constructor's argument.

   State.  An application identity is a string "org/name".  `store` is the persistent settings (one slot per
   identity, 0 = no value), `app` what QCoreApplication answers now, `hs` the attribute handlers alive in the running
   process.  UUIDs are natural numbers: the n-th UUID ever generated is n (the harness numbers the strings it sees in
   the order of their first appearance, so a handler that shows an old UUID where a new one is due - or the other way
   round - gets a number the model does not expect).
   A process may end at any point (Restart); whatever a constructor that RETURNED has put into the settings is
   there for the next process - the constructor's QSettings object writes the file when it goes out of scope. *)
EXTENDS Naturals, Sequences, FiniteSets, TLC

CONSTANTS
    \* @type: Set(Str);
    Apps,      \* application identities "org/name"
    \* @type: Set(Str);
    Vers,      \* version strings
    \* @type: Set(Int);
    H          \* handler identities

VARIABLES
    \* @type: {id: Str, ver: Str};
    app,       \* [id, ver]: what QCoreApplication says now ("-" = nothing set in this process yet)
    \* @type: Str -> Int;
    store,     \* Apps -> Nat: persistent settings value of "app_uuid" (0 = absent)
    \* @type: Int -> {k: Str, id: Str, ver: Str, uuid: Int};
    hs,        \* H -> handler record [k, id, ver, uuid] (k = "none" when there is no such handler)
    \* @type: Int;
    fresh,     \* number of UUIDs generated so far
    \* @type: Str -> Int;
    epoch,     \* ghost: Apps -> how often the settings of that identity were wiped
    \* @type: Set({id: Str, ep: Int, uuid: Int});
    issued     \* ghost: set of [id, ep, uuid] - every UUID a handler ever answered with, where and when

evars == <<app, store, hs, fresh, epoch, issued>>

None == [k |-> "none", id |-> "-", ver |-> "", uuid |-> 0]

EInit == /\ app = [id |-> "-", ver |-> ""]
         /\ store = [a \in Apps |-> 0]
         /\ hs = [h \in H |-> None]
         /\ fresh = 0
         /\ epoch = [a \in Apps |-> 0]
         /\ issued = {}

(* QCoreApplication::setOrganizationName / setApplicationName / setApplicationVersion *)
SetApp(a, v) == /\ app' = [id |-> a, ver |-> v]
                /\ UNCHANGED <<store, hs, fresh, epoch, issued>>

(* AppInfoAttrs(): snapshot of the application's identity *)
NewInfo(h) == /\ hs[h].k = "none"
              /\ hs' = [hs EXCEPT ![h] = [k |-> "info", id |-> app.id, ver |-> app.ver, uuid |-> 0]]
              /\ UNCHANGED <<app, store, fresh, epoch, issued>>

(* SysInfoAttrs(): snapshot of QSysInfo (constant for a machine; the trace specification compares the eleven values) *)
NewSys(h) == /\ hs[h].k = "none"
             /\ hs' = [hs EXCEPT ![h] = [k |-> "sys", id |-> "-", ver |-> "", uuid |-> 0]]
             /\ UNCHANGED <<app, store, fresh, epoch, issued>>

(* AppUuidAttr(name): read the settings of the CURRENT identity; create and store a UUID when there is none *)
NewUuid(h) == /\ hs[h].k = "none"
              /\ app.id \in Apps
              /\ LET old == store[app.id]
                     u == IF old = 0 THEN fresh + 1 ELSE old
                 IN  /\ fresh' = IF old = 0 THEN fresh + 1 ELSE fresh
                     /\ store' = [store EXCEPT ![app.id] = u]
                     /\ hs' = [hs EXCEPT ![h] = [k |-> "uuid", id |-> app.id, ver |-> "", uuid |-> u]]
                     /\ issued' = issued \cup {[id |-> app.id, ep |-> epoch[app.id], uuid |-> u]}
              /\ UNCHANGED <<app, epoch>>

(* The same construction as the code really does it - a read of the settings, then (when nothing was there) a write -
   with other constructions free to come in between.  Handlers stand for the AppUuidAttr objects of ALL running
   instances of the application (two instances started together share the user's settings), so two of them may both
   read "nothing there".  The atomic NewUuid above is what a single instance does when nobody else is around. *)
UuidRead(h) == /\ hs[h].k = "none"
               /\ app.id \in Apps
               /\ hs' = [hs EXCEPT ![h] = [k |-> "reading", id |-> app.id, ver |-> "", uuid |-> store[app.id]]]
               /\ UNCHANGED <<app, store, fresh, epoch, issued>>
UuidWrite(h) == /\ hs[h].k = "reading"
                /\ LET seen == hs[h].uuid
                       u == IF seen = 0 THEN fresh + 1 ELSE seen
                   IN  /\ fresh' = IF seen = 0 THEN fresh + 1 ELSE fresh
                       /\ store' = IF seen = 0 THEN [store EXCEPT ![hs[h].id] = u] ELSE store     \* the last writer wins
                       /\ hs' = [hs EXCEPT ![h] = [k |-> "uuid", id |-> hs[h].id, ver |-> "", uuid |-> u]]
                       /\ issued' = issued \cup {[id |-> hs[h].id, ep |-> epoch[hs[h].id], uuid |-> u]}
                /\ UNCHANGED <<app, epoch>>

(* a message passes handler h: nothing changes - the answer is a function of the handler's own record *)
Ask(h) == hs[h].k # "none" /\ UNCHANGED evars

Drop(h) == /\ hs[h].k # "none"
           /\ hs' = [hs EXCEPT ![h] = None]
           /\ UNCHANGED <<app, store, fresh, epoch, issued>>

(* the process ends (cleanly or not) and another one starts; S = identities whose settings file is deleted in between *)
Restart(S) == /\ app' = [id |-> "-", ver |-> ""]
              /\ hs' = [h \in H |-> None]
              /\ store' = [a \in Apps |-> IF a \in S THEN 0 ELSE store[a]]
              /\ epoch' = [a \in Apps |-> IF a \in S THEN epoch[a] + 1 ELSE epoch[a]]
              /\ UNCHANGED <<fresh, issued>>

ENext == \/ \E a \in Apps, v \in Vers : SetApp(a, v)
         \/ \E h \in H : NewInfo(h) \/ NewSys(h) \/ NewUuid(h) \/ Drop(h) \/ Ask(h)
         \/ \E S \in SUBSET Apps : Restart(S)

ESpec == EInit /\ [][ENext]_evars
\* several instances of the application constructing their handlers at the same time
ENextConc == ENext \/ \E h \in H : UuidRead(h) \/ UuidWrite(h)
ESpecConc == EInit /\ [][ENextConc]_evars

-----------------------------------------------------------------------------
(* what the handlers owe *)

\* "persists across restarts", "created once": within one life of an identity's settings there is ONE uuid ...
UuidPersistent == \A x, y \in issued : (x.id = y.id /\ x.ep = y.ep) => x.uuid = y.uuid
\* ... and it is that identity's own: another identity, or the same one after its settings were wiped, gets another
UuidOwn == \A x, y \in issued : x.uuid = y.uuid => (x.id = y.id /\ x.ep = y.ep)
\* what a live handler shows is what the settings hold (unless they were wiped under it - not possible in a process)
UuidIsStored == \A h \in H : hs[h].k = "uuid" => hs[h].uuid # 0 /\ store[hs[h].id] = hs[h].uuid
\* "captured once at construction time"
SnapshotStable == [][\A h \in H : (hs[h].k # "none" /\ hs'[h].k # "none") => hs'[h] = hs[h]]_evars
\* renaming the application does not rename what an existing handler says, and does not move its uuid
RenameIsLocal == [][(app'.id # app.id /\ app'.id # "-") => (hs' = hs /\ store' = store)]_evars

TypeOK == /\ fresh \in Nat
          /\ \A a \in Apps : store[a] <= fresh
          /\ \A h \in H : hs[h].k \in {"none", "info", "sys", "uuid", "reading"}
=============================================================================
