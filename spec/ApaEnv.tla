------------------------------- MODULE ApaEnv -------------------------------
(* An inductive invariant for QtlEnv, discharged by Apalache: UuidPersistent, UuidOwn and UuidIsStored hold after ANY
   number of generated UUIDs, wipes and restarts (TLC's exhaustive run bounds both counters).  What stays bounded is
   the number of (identity, epoch, uuid) triples a start state of the inductive step may hold (Gen(6)). *)
EXTENDS QtlEnv, Apalache

CInit == /\ Apps = {"o1/a1", "o1/a2", "o2/a1"}
         /\ Vers = {"", "1.0"}
         /\ H = {1, 2, 3}

Book ==
    /\ fresh >= 0
    /\ app.id \in Apps \cup {"-"} /\ app.ver \in Vers
    /\ DOMAIN store = Apps /\ DOMAIN epoch = Apps /\ DOMAIN hs = H
    /\ \A a \in Apps : store[a] >= 0 /\ store[a] <= fresh /\ epoch[a] >= 0
    /\ \A x \in issued : x.id \in Apps /\ x.uuid >= 1 /\ x.uuid <= fresh /\ x.ep >= 0 /\ x.ep <= epoch[x.id]
    \* the stored value is the one issued in the identity's current epoch, and the only one
    /\ \A a \in Apps : store[a] # 0 => [id |-> a, ep |-> epoch[a], uuid |-> store[a]] \in issued
    /\ \A x \in issued : x.ep = epoch[x.id] => store[x.id] = x.uuid
    /\ \A h \in H : /\ hs[h].k \in {"none", "info", "sys", "uuid"}
                    /\ hs[h].k = "uuid" => hs[h].id \in Apps

IndInv == Book /\ UuidPersistent /\ UuidOwn /\ UuidIsStored

IndInit ==
    /\ issued = Gen(6)
    /\ fresh \in 0..50
    /\ app \in [id : Apps \cup {"-"}, ver : Vers]
    /\ store \in [Apps -> 0..50]
    /\ epoch \in [Apps -> 0..50]
    /\ hs \in [H -> [k : {"none", "info", "sys", "uuid"}, id : Apps \cup {"-"}, ver : Vers, uuid : 0..50]]
    /\ IndInv
\* non-vacuity: the step may start with several issued triples and a live uuid handler
NotRich == ~(Cardinality(issued) >= 4 /\ \E h \in H : hs[h].k = "uuid")
=============================================================================
