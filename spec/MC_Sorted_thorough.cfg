SPECIFICATION Spec
CONSTANT MaxCalls = 7
CONSTRAINT Bound
INVARIANT TypeOK
INVARIANT C17
PROPERTY AppendAddsOne
