SPECIFICATION Spec
CONSTANT MaxCalls = 8
CONSTRAINT Bound
INVARIANT TypeOK
INVARIANT C17
PROPERTY AppendAddsOne
