SPECIFICATION TraceSpec
CONSTANTS Producers = {"p1","p2","p3","p4","p5","p6","p7","p8","p9","p10","p11","p12","p13","p14","p15","p16",
                       "p17","p18","p19","p20","p21","p22","p23","p24","p25","p26","p27","p28","p29","p30","p31","p32",
                       "p33","p34","p35","p36","p37","p38","p39","p40","p41","p42","p43","p44","p45","p46","p47","p48","pw"}
          Stoppers = {"M", "S2"}
INVARIANT MutualExclusion
INVARIANT NoDoubleDelivery
INVARIANT SeqConsecutive
INVARIANT ProducerOrder
INVARIANT SyncDeliveredOnReturn
INVARIANT WorkerOnly
INVARIANT AsyncOrder
INVARIANT RealTimeOrder
INVARIANT LateMessagesSync
INVARIANT DrainBeforeStop
INVARIANT NoUseAfterFree
CONSTRAINT Progress
POSTCONDITION ReportMax
CHECK_DEADLOCK FALSE
