----------------------------- MODULE MC_Sorted -----------------------------
EXTENDS QtlSorted
CONSTANT MaxCalls
Bound == ncalls <= MaxCalls
\* the identities themselves are irrelevant for the invariants beyond their order; keep them (small)
=============================================================================
