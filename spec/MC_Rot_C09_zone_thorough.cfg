SPECIFICATION MCSpec
CONSTANTS
    BufCap = 3
    Ls = {0, 3}
    Ns = {0, 2}
    Opts = {2, 3, 6}
    Sizes = {1, 2}
    MaxSends = 4
    MaxDay = 2
    MaxRestarts = 1
    MaxCrash = 0
    MaxFault = 0
    MaxGzWrites = 1
    Ticks = FALSE
    Fatal = FALSE
    FlushOnFatal = TRUE
    ZoneBack = TRUE
    ZoneTies = FALSE
INVARIANT TypeOK
INVARIANT ReadBackIsHistory
INVARIANT CountBound
INVARIANT SurvivorsAreRecentSuffix
INVARIANT NoRetentionWhenUnlimited
INVARIANT NoRotationWhenOne
INVARIANT ForeignUntouched
INVARIANT SizeBound
INVARIANT GzFaithful
INVARIANT DaysApart
INVARIANT NameCarriesDay
INVARIANT FlushedRecoverable
INVARIANT NoDuplicates
INVARIANT FatalDurableInv
PROPERTY OrigRemovedOnlyAfterGzClosed
PROPERTY NamesNeverReused
CHECK_DEADLOCK FALSE
