----------------------------- MODULE MC_Config -----------------------------
(* Sanity of QtlConfig's pure functions on concrete values (TLC evaluates the assumptions). *)
EXTENDS QtlConfig

ESC == 27
Colored == <<ESC,91,49,59,51,50,109, 73, ESC,91,48,109, 32, ESC,91,51,50,109, 111,107, ESC,91,48,109>>    \* "\e[1;32mI\e[0m \e[32mok\e[0m"
ASSUME Strip1 == StripAnsi(Colored) = <<73, 32, 111, 107>>
ASSUME Strip2 == StripAnsi(<<ESC, 91, 120>>) = <<ESC, 91, 120>>            \* not a colour code: kept
ASSUME Strip3 == StripAnsi(<<97, ESC>>) = <<97, ESC>>

Line1 == <<50,57,46,48,57,46,50,48,50,54,32,48,54,58,49,48,58,49,49,32, 87, 32, 91,110,101,116,93,32, 100,111,119,110>>  \* "29.09.2026 06:10:11 W [net] down"
M1 == [type |-> "warning", cat |-> <<110,101,116>>, text |-> <<100,111,119,110>>, tokens |-> <<>>]
ASSUME Shape1 == PrettyShape(Line1, M1)
ASSUME Shape2 == ~PrettyShape(Line1, [M1 EXCEPT !.type = "info"])
ASSUME Shape3 == ~PrettyShape(Line1, [M1 EXCEPT !.cat = <<120>>])

K0 == [rules |-> << [pat |-> <<110,101,116>>, typed |-> "", on |-> FALSE] >>, rx |-> [kind |-> "none", lit |-> <<>>],
       fmt |-> "pretty", stdout |-> FALSE, stderr |-> TRUE, platform |-> TRUE, file |-> FALSE,
       colorOut |-> FALSE, colorErr |-> FALSE, ttyOut |-> FALSE, ttyErr |-> FALSE]
ASSUME Filtered == IniObligations(K0, <<M1>>, [stdout |-> <<>>, stderr |-> <<>>, file |-> <<>>, fileExists |-> FALSE])
ASSUME Twice == IniObligations([K0 EXCEPT !.rules = <<>>], <<M1>>, [stdout |-> <<>>, stderr |-> <<Line1, Line1>>, file |-> <<>>, fileExists |-> FALSE])
ASSUME OnceIsNotEnough == ~IniObligations([K0 EXCEPT !.rules = <<>>], <<M1>>, [stdout |-> <<>>, stderr |-> <<Line1>>, file |-> <<>>, fileExists |-> FALSE])
ASSUME Leak == ~IniObligations([K0 EXCEPT !.rules = <<>>], <<M1>>, [stdout |-> <<Line1>>, stderr |-> <<Line1, Line1>>, file |-> <<>>, fileExists |-> FALSE])

ColLine1 == <<27, 91, 51, 51, 109>> \o Line1 \o <<27, 91, 48, 109>>
KC == [K0 EXCEPT !.rules = <<>>, !.colorErr = TRUE, !.ttyErr = TRUE]
ASSUME Coloured == IniObligations(KC, <<M1>>, [stdout |-> <<>>, stderr |-> <<ColLine1, Line1>>, file |-> <<>>, fileExists |-> FALSE])
ASSUME ColourMissing == ~IniObligations(KC, <<M1>>, [stdout |-> <<>>, stderr |-> <<Line1, Line1>>, file |-> <<>>, fileExists |-> FALSE])
ASSUME ColourUnwanted == ~IniObligations([KC EXCEPT !.ttyErr = FALSE], <<M1>>, [stdout |-> <<>>, stderr |-> <<ColLine1, Line1>>, file |-> <<>>, fileExists |-> FALSE])

MCInit == IInit
MCNext == UNCHANGED ivars
=============================================================================
