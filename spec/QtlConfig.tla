------------------------------ MODULE QtlConfig ------------------------------
(***************************************************************************)
(* The configuration front-ends (configure.cpp, Logger::configure) and the *)
(* installation of the message handler (logger.cpp).  Property C19.        *)
(*                                                                         *)
(* Part 1 - what a set of INI keys / one-line arguments must deliver:       *)
(* keys = [rules  (category rules as in QtlCategory, <<>> = key absent),   *)
(*         rx     ([kind, lit]; kind "none" = key absent),                  *)
(*         fmt    ("pattern" | "pretty"),                                   *)
(*         stdout, stderr, platform, file (BOOLEAN: output configured)]    *)
(* A message is [type, cat, text, tokens] - tokens is the message pattern  *)
(* with this message's values filled in (QtlPattern), so the expected line *)
(* is Format(tokens, type).  Each configured output receives the line of   *)
(* every message that passes both filters, once, in order; nothing else    *)
(* receives anything.  The platform log is standard error on this          *)
(* platform, so standard error carries one copy per configured writer.     *)
(* Part 2 - the one-line configuration: the file holds the console text    *)
(* minus terminal colour codes.                                            *)
(* Part 3 - the history of Qt's message-handler slot.                      *)
(***************************************************************************)
EXTENDS QtlCategory, Integers, TLC

P == INSTANCE QtlPattern

Rx(rx, text) ==
    CASE rx.kind = "none"     -> TRUE
      [] rx.kind = "contains" -> Contains(text, rx.lit)
      [] rx.kind = "prefix"   -> StartsWith(text, rx.lit)
      [] rx.kind = "suffix"   -> EndsWith(text, rx.lit)

Passes(keys, m) == Verdict(keys.rules, m.cat, m.type) /\ Rx(keys.rx, m.text)

RECURSIVE Flat(_)
Flat(ss) == IF ss = <<>> THEN <<>> ELSE Head(ss) \o Flat(Tail(ss))

\* the messages that get through, in order
Through(keys, msgs) == SelectSeq(msgs, LAMBDA m : Passes(keys, m))

Letter(type) == CASE type = "debug" -> 32 [] type = "info" -> 73 [] type = "warning" -> 87
                  [] type = "critical" -> 69 [] type = "fatal" -> 70
IsDigit(c) == c >= 48 /\ c <= 57
DEFAULT == <<100,101,102,97,117,108,116>>
\* "dd.MM.yyyy hh:mm:ss L [category] message" - the documented default line
PrettyShape(line, m) ==
    /\ Len(line) >= 22 + Len(m.text)
    /\ \A i \in {1, 2, 4, 5, 7, 8, 9, 10, 12, 13, 15, 16, 18, 19} : IsDigit(line[i])
    /\ line[3] = 46 /\ line[6] = 46 /\ line[11] = 32 /\ line[14] = 58 /\ line[17] = 58 /\ line[20] = 32
    /\ line[21] = Letter(m.type) /\ line[22] = 32
    /\ EndsWith(line, m.text)
    /\ (m.cat # DEFAULT) => Contains(SubSeq(line, 22, Len(line) - Len(m.text)), <<91>> \o m.cat \o <<93, 32>>)
    /\ (m.cat = DEFAULT) => ~Contains(SubSeq(line, 22, Len(line) - Len(m.text)), <<91>>)

LineOk(keys, line, m) == IF keys.fmt = "pattern" THEN line = P!Format(m.tokens, m.type) ELSE PrettyShape(line, m)

\* ColoredConsole (sinks/coloredconsole.cpp): a console sink in colour mode Auto wraps the line in the colour of the
\* message type when its own stream is a terminal
ColorPrefix(type) ==
    CASE type = "debug"    -> <<27, 91, 57, 48, 109>>               \* ESC[90m
      [] type = "info"     -> <<27, 91, 51, 50, 109>>               \* ESC[32m
      [] type = "warning"  -> <<27, 91, 51, 51, 109>>               \* ESC[33m
      [] type = "critical" -> <<27, 91, 51, 49, 109>>               \* ESC[31m
      [] type = "fatal"    -> <<27, 91, 49, 59, 57, 49, 109>>       \* ESC[1;91m
ColorReset == <<27, 91, 48, 109>>                                   \* ESC[0m

\* one copy of a message's line on a console stream; `col` = this sink colours (its colour key is set and its stream is
\* a terminal)
ConsoleLineOk(keys, line, m, col) ==
    IF col
    THEN LET pre == ColorPrefix(m.type)
             n == Len(line) - Len(pre) - Len(ColorReset)
         IN  /\ n >= 0
             /\ SubSeq(line, 1, Len(pre)) = pre
             /\ SubSeq(line, Len(line) - Len(ColorReset) + 1, Len(line)) = ColorReset
             /\ LineOk(keys, SubSeq(line, Len(pre) + 1, Len(pre) + n), m)
    ELSE LineOk(keys, line, m) /\ ~Contains(line, <<27>>)

\* does the sequence `lines` hold, for each message of `ms` in turn, one correct line per entry of `cols` (the sinks
\* that write to this stream, in pipeline order; TRUE = that sink colours)?
Delivered(keys, lines, ms, cols) ==
    LET k == Len(cols) IN
    /\ Len(lines) = k * Len(ms)
    /\ \A i \in 1..Len(ms) : \A j \in 1..k : ConsoleLineOk(keys, lines[(i - 1) * k + j], ms[i], cols[j])

\* The file keys (max_file_size, max_file_count, rotate_on_startup, rotate_daily, compress_old_files) reach the
\* rotating sink: the scenario plants a log file of an earlier day (`old` lines, modification time two days back) and
\* the directory is read afterwards - out.rot = rotated files in (date, index) order, each [gz, old (named after the
\* planted file's day), lines, bytes], out.file / out.fileBytes = the active file.
FileShape(fo, nnew, out, NewLineOk(_, _)) ==
    LET ms == [i \in 1..nnew |-> i]
        all == Flat([i \in 1..Len(out.rot) |-> out.rot[i].lines]) \o out.file
        want == Len(fo.old) + Len(ms)
        k == want - Len(all)                                       \* lines that retention removed (the oldest ones)
        rotating == fo.N # 1                                       \* a count limit of 1 means "never rotate"
        \* the planted file is from an earlier day; the sink looks at it when its first message arrives
        startRot == rotating /\ fo.old # <<>> /\ (fo.startup \/ fo.daily) /\ ms # <<>>
    IN  /\ k >= 0 /\ (k > 0 => fo.N >= 2)
        /\ \A i \in 1..Len(all) :
               LET j == k + i IN
               IF j <= Len(fo.old) THEN all[i] = fo.old[j] ELSE NewLineOk(all[i], j - Len(fo.old))
        /\ startRot => (/\ Len(out.file) <= Len(ms)                \* nothing old is left in the active file
                        /\ (k < Len(fo.old)) => (out.rot # <<>> /\ out.rot[1].old))   \* and it went to a file named after its day
        /\ (~startRot /\ (fo.L = 0 \/ ~rotating)) => out.rot = <<>>
        /\ fo.N >= 2 => Len(out.rot) <= fo.N - 1
        /\ \A i \in 1..Len(out.rot) : out.rot[i].gz = fo.gz
        /\ (fo.L > 0 /\ rotating) =>
               /\ \A i \in 1..Len(out.rot) : out.rot[i].bytes <= fo.L \/ Len(out.rot[i].lines) = 1
               /\ out.fileBytes <= fo.L \/ Len(out.file) <= 1

FileObligations(keys, ms, out) ==
    FileShape(keys.fopt, Len(ms), out, LAMBDA line, j : LineOk(keys, line, ms[j]))

IniObligations(keys, msgs, out) ==
    LET ms == Through(keys, msgs)
        \* the stdout sink; on stderr the stderr sink, then the platform sink (standard error here, never coloured)
        outCols == IF keys.stdout THEN <<keys.colorOut /\ keys.ttyOut>> ELSE <<>>
        errCols == (IF keys.stderr THEN <<keys.colorErr /\ keys.ttyErr>> ELSE <<>>) \o (IF keys.platform THEN <<FALSE>> ELSE <<>>)
    IN  /\ Delivered(keys, out.stdout, ms, outCols)
        /\ Delivered(keys, out.stderr, ms, errCols)
        /\ IF keys.file THEN FileObligations(keys, ms, out) ELSE out.file = <<>>
        /\ out.fileExists = keys.file

\* ESC [ digits-and-semicolons m
RECURSIVE StripFrom(_, _)
SkipCsi(s, i) == LET RECURSIVE Scan(_) Scan(j) == IF j <= Len(s) /\ (IsDigit(s[j]) \/ s[j] = 59) THEN Scan(j + 1) ELSE j
                 IN  Scan(i)
StripFrom(s, i) ==
    IF i > Len(s) THEN <<>>
    ELSE IF s[i] = 27 /\ i < Len(s) /\ s[i + 1] = 91
         THEN LET j == SkipCsi(s, i + 2)
              IN  IF j <= Len(s) /\ s[j] = 109 THEN StripFrom(s, j + 1)
                  ELSE <<s[i]>> \o StripFrom(s, i + 1)
         ELSE <<s[i]>> \o StripFrom(s, i + 1)
StripAnsi(s) == StripFrom(s, 1)

\* one-line configure(path, ...): every message on the console once (pretty, coloured), and the file - when a
\* path is given - holds the console text minus its colour codes
\* (with a size limit of 0 and neither start-up nor daily rotation the one-line form uses a plain FileSink, which never
\* rotates, whatever the count limit and the compression flag say)
OneLineFo(fo) == IF fo.L > 0 \/ fo.startup \/ fo.daily THEN fo ELSE [fo EXCEPT !.N = 1]

OneLineObligations(hasPath, msgs, out) ==
    /\ Len(out.stderr) = Len(msgs) /\ out.stdout = <<>>
    \* (a message text may carry colour codes of its own: stripping the line strips those as well)
    /\ \A i \in 1..Len(msgs) : PrettyShape(StripAnsi(out.stderr[i]), [msgs[i] EXCEPT !.text = StripAnsi(@)])
    /\ out.fileExists = hasPath
    /\ hasPath => FileShape(OneLineFo(out.fopt), Len(msgs), out,
                            LAMBDA line, j : line = StripAnsi(out.stderr[j]) /\ ~Contains(line, <<27>>))
    /\ ~hasPath => out.file = <<>>

---------------------------------------------------------------------------
\* Part 3: Qt's message-handler slot and the logger object behind it (logger.cpp: g_previousMessageHandler,
\* g_activeLogger).  Handlers: "default", "logger" (Logger::messageHandler), foreign handlers "f1", "f2".  Logger
\* objects: "a", "b" - Logger::messageHandler forwards to the logger that was installed LAST and is still alive; a
\* logger that is destroyed takes itself out (and only itself: testAndSet), after which messages that still arrive at
\* Logger::messageHandler are dropped.
Loggers == {"a", "b"}
VARIABLES cur,      \* what Qt calls
          saved,    \* g_previousMessageHandler ("none" = null)
          first,    \* ghost: the handler that was active before the logger was first installed ("none" = never)
          active,   \* g_activeLogger ("none" = null)
          alive     \* ghost: the logger objects that exist
ivars == <<cur, saved, first, active, alive>>

IInit == cur = "default" /\ saved = "none" /\ first = "none" /\ active = "none" /\ alive = Loggers

InstallBy(x) ==                                \* x.installMessageHandler()
    /\ x \in alive
    /\ saved' = IF cur # "logger" THEN cur ELSE saved
    /\ first' = IF first = "none" THEN cur ELSE first
    /\ cur' = "logger"
    /\ active' = x
    /\ UNCHANGED alive
Install == InstallBy("a")

Foreign(h) == cur' = h /\ UNCHANGED <<saved, first, active, alive>>       \* somebody else calls qInstallMessageHandler(h)

Restore ==                                     \* Logger::restorePreviousMessageHandler
    IF saved = "none" THEN UNCHANGED ivars
    ELSE /\ cur' = IF cur = "logger" THEN saved ELSE cur    \* a newer foreign handler stays in place
         /\ saved' = "none" /\ first' = "none"
         /\ UNCHANGED <<active, alive>>

Kill(x) ==                                     \* Logger::~Logger
    /\ x \in alive
    /\ alive' = alive \ {x}
    /\ active' = IF active = x THEN "none" ELSE active
    /\ UNCHANGED <<cur, saved, first>>

\* who sees a message emitted through Qt's macros now ("nobody": Qt's default handler, or dropped by Logger::messageHandler)
Receiver == IF cur = "logger" THEN (IF active = "none" THEN "nobody" ELSE active)
            ELSE IF cur = "default" THEN "nobody" ELSE cur

INext == \/ \E x \in Loggers : InstallBy(x) \/ Kill(x)
         \/ Restore
         \/ \E h \in {"f1", "f2"} : Foreign(h)

\* After a restore the logger is gone from the slot; what is there instead is the handler that was active before the
\* logger was first installed (or, when a foreign handler was installed between two installs, that one - the
\* statement can be read both ways), and a newer foreign handler is left alone.
RestoreReinstates ==
    [][ (saved # "none" /\ cur' # cur /\ saved' = "none") =>
            (cur = "logger" /\ cur' \in {first, saved} /\ cur' # "logger") ]_ivars
NewerForeignStays ==
    [][ (saved # "none" /\ saved' = "none" /\ cur # "logger") => cur' = cur ]_ivars
InstallIdempotent ==
    [][ (cur = "logger" /\ cur' = "logger") => saved' = saved ]_ivars
\* a destroyed logger never receives anything; destroying one logger does not silence the other
ActiveIsAlive == active \in alive \cup {"none"}
KillIsLocal == [][ \A x \in Loggers : (x \in alive /\ x \notin alive' /\ active # x) => active' = active ]_ivars
LastInstalledReceives == [][ \A x \in Loggers : (active' = x /\ active # x) => (cur' = "logger" /\ Receiver' = x) ]_ivars
=============================================================================
