------------------------------ MODULE QtlPretty ------------------------------
(***************************************************************************)
(* PrettyFormatter (formatters/prettyformatter.cpp) without colours: the   *)
(* default line format of the INI configuration and (with colours, which   *)
(* QtlConfig!StripAnsi removes) of the one-line configuration.  It is a    *)
(* small automaton over the message stream: the formatter remembers the    *)
(* threads it has seen (the first one is shown as blanks, later ones as    *)
(* T1, T2, ...; nothing is shown while only one thread has been seen) and  *)
(* the widest "[category] " field so far (capped by maxCategoryWidth),     *)
(* to which shorter ones are padded.  The model is the code's behaviour;   *)
(* docs/api/formatters.md only sketches the line.                          *)
(* Text = sequences of UTF-16 code units.                                  *)
(***************************************************************************)
EXTENDS QtlText, Integers

DEFAULTCAT == <<100,101,102,97,117,108,116>>
Letter(type) == CASE type = "debug" -> 32 [] type = "info" -> 73 [] type = "warning" -> 87
                  [] type = "critical" -> 69 [] type = "fatal" -> 70

\* st = [threads (ids in the order first seen), width, maxw]
Init0(maxw) == [threads |-> <<>>, width |-> 0, maxw |-> maxw]

IndexOf(s, x) == CHOOSE i \in 1..Len(s) : s[i] = x

Step(st, m) ==
    LET threads == IF \E i \in 1..Len(st.threads) : st.threads[i] = m.tid THEN st.threads ELSE Append(st.threads, m.tid)
        idx == IndexOf(threads, m.tid) - 1
        n == Len(threads)
        threadField == IF n <= 1 THEN <<>>
                       ELSE IF idx = 0 THEN Rep(32, IF n > 100 THEN 5 ELSE IF n > 10 THEN 4 ELSE 3)
                       ELSE <<84>> \o DecDigits(idx) \o <<32>>
        isDefault == m.cat = DEFAULTCAT
        catField == IF isDefault THEN <<>> ELSE <<91>> \o m.cat \o <<93, 32>>
        catLen == IF isDefault THEN 0 ELSE Len(m.cat) + 3
        width == IF st.maxw > 0 /\ catLen > st.width THEN (IF catLen < st.maxw THEN catLen ELSE st.maxw) ELSE st.width
        pad == IF st.maxw > 0 /\ width - catLen > 0 THEN Rep(32, width - catLen) ELSE <<>>
    IN  [line |-> m.ts \o <<32, Letter(m.type), 32>> \o threadField \o catField \o pad \o m.text,
         st |-> [threads |-> threads, width |-> width, maxw |-> st.maxw]]
=============================================================================
