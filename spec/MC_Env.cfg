CONSTANTS
  Apps = {"o1/a1", "o1/a2"}
  Vers = {"", "1.0"}
  H = {1, 2, 3}
  MaxFresh = 4
  MaxWipes = 2
SPECIFICATION ESpec
CONSTRAINT Bound
INVARIANTS TypeOK UuidPersistent UuidOwn UuidIsStored
PROPERTIES SnapshotStable RenameIsLocal
CHECK_DEADLOCK FALSE
