------------------------------ MODULE QtlPattern ------------------------------
(***************************************************************************)
(* The pattern mini-language of PatternFormatter                            *)
(* (formatters/patternformatter.cpp), transcribed from docs/api/           *)
(* formatters.md: placeholders, type conditionals, optional attributes     *)
(* with removal of surrounding literal text, the %% escape and the         *)
(* [fill][align][width][!] specification.  Property C12.                   *)
(*                                                                         *)
(* A pattern is a sequence of tokens (the harness renders it to pattern    *)
(* text by the documented syntax):                                         *)
(*   [k |-> "lit",  text]                    literal text (%% already %)   *)
(*   [k |-> "ph",   val, spec]               a built-in placeholder with   *)
(*                                           the value it stands for       *)
(*   [k |-> "attr", has, val, opt, n, m, spec]   custom attribute          *)
(*   [k |-> "if", type]  /  [k |-> "endif"]  type conditional              *)
(* Text is a sequence of UTF-16 code units (width and truncation are       *)
(* defined on QString length).  spec = [on, fill, fillgiven, align, width, *)
(* bang].                                                                  *)
(***************************************************************************)
EXTENDS Integers, Sequences, SequencesExt, TLC

Rep(c, n) == [i \in 1..n |-> c]
FirstN(s, n) == SubSeq(s, 1, n)
LastN(s, n) == SubSeq(s, Len(s) - n + 1, Len(s))

\* docs: "Fixed-Width Formatting"
Truncated(v, sp) == IF Len(v) <= sp.width THEN v
                    ELSE IF sp.align = ">" THEN LastN(v, sp.width) ELSE FirstN(v, sp.width)

Padded(v, sp) ==
    IF Len(v) >= sp.width THEN v
    ELSE LET p == sp.width - Len(v)
         IN  CASE sp.align = "<" -> v \o Rep(sp.fill, p)
               [] sp.align = ">" -> Rep(sp.fill, p) \o v
               [] sp.align = "^" -> Rep(sp.fill, p \div 2) \o v \o Rep(sp.fill, p - (p \div 2))   \* extra unit right
               [] OTHER -> v

Field(v, sp) ==
    IF ~sp.on THEN v
    ELSE IF sp.bang /\ ~sp.fillgiven THEN Truncated(v, sp)              \* truncation only: never padded
    ELSE IF sp.bang THEN Padded(Truncated(v, sp), sp)                   \* truncate and pad: exactly width
    ELSE Padded(v, sp)                                                  \* padding only: never truncated

\* one token; st = [out, cond ("" = none), pend (units to drop from the literal text that follows)]
Step(st, tk, type) ==
    IF tk.k = "if" THEN [st EXCEPT !.cond = tk.type]
    ELSE IF tk.k = "endif" THEN [st EXCEPT !.cond = ""]
    ELSE IF st.cond # "" /\ st.cond # type THEN st                      \* inside a block for another type
    ELSE IF tk.k = "lit" THEN
        [st EXCEPT !.out = @ \o (IF st.pend >= Len(tk.text) THEN <<>> ELSE SubSeq(tk.text, st.pend + 1, Len(tk.text))),
                   !.pend = 0]
    ELSE IF tk.k = "ph" THEN
        LET f == Field(tk.val, tk.spec) IN [st EXCEPT !.out = @ \o f, !.pend = IF f = <<>> THEN @ ELSE 0]
    ELSE \* "attr"
        IF tk.has THEN LET f == Field(tk.val, tk.spec) IN [st EXCEPT !.out = @ \o f, !.pend = IF f = <<>> THEN @ ELSE 0]
        ELSE \* absent optional attribute: drop n units before it, m units of the literal text after it
             [st EXCEPT !.out = IF tk.n > 0 /\ Len(@) >= tk.n THEN SubSeq(@, 1, Len(@) - tk.n) ELSE @,
                        !.pend = @ + tk.m]

Format(tokens, type) ==
    FoldLeft(LAMBDA st, tk : Step(st, tk, type), [out |-> <<>>, cond |-> "", pend |-> 0], tokens).out

---------------------------------------------------------------------------
\* Laws of the transcription itself (checked exhaustively over a small universe by MC_Pattern)

IsSub(v, s) == v = <<>> \/ \E i \in 1..(Len(s) - Len(v) + 1) : SubSeq(s, i, i + Len(v) - 1) = v

\* the width laws of the three documented modes
WidthLaw(v, sp) ==
    LET f == Field(v, sp) IN
    sp.on => CASE sp.bang /\ ~sp.fillgiven -> Len(f) = (IF Len(v) <= sp.width THEN Len(v) ELSE sp.width)
               [] sp.bang                  -> Len(f) = sp.width
               [] OTHER                    -> Len(f) = (IF Len(v) >= sp.width THEN Len(v) ELSE sp.width)

\* "values are inserted verbatim": without truncation the value is a contiguous part of the field and everything
\* else in the field is fill
VerbatimLaw(v, sp) ==
    LET f == Field(v, sp) IN
    (~sp.on \/ ~sp.bang \/ Len(v) <= sp.width) =>
        /\ IsSub(v, f)
        /\ Len(f) - Len(v) = Len(SelectSeq(f, LAMBDA c : c = sp.fill)) - Len(SelectSeq(v, LAMBDA c : c = sp.fill))

\* %{func}: the cleaned function name.  docs/api/formatters.md gives the example "void MyClass::myMethod(int,
\* QString)" -> "MyClass::myMethod"; for signatures of that plain kind - [qualifiers] type name(args) [const], no
\* templates, operators or function pointers - it is the text between the last blank before the first "(" and
\* that "(" (the whole text after the last blank when there is no parenthesis).
CleanFunc(sig) ==
    LET ps == {i \in 1..Len(sig) : sig[i] = 40}
        p  == IF ps = {} THEN Len(sig) + 1 ELSE CHOOSE i \in ps : \A j \in ps : i <= j
        bs == {i \in 1..(p - 1) : sig[i] = 32}
        b  == IF bs = {} THEN 0 ELSE CHOOSE i \in bs : \A j \in bs : j <= i
    IN  SubSeq(sig, b + 1, p - 1)
=============================================================================
