---------------------------- MODULE QtlLineSinks ----------------------------
(* The two sinks that hand a message to something line-oriented outside the library (beyond the listed properties):
   IODeviceSink (sinks/iodevicesink.cpp, SimplePipeline::sendToIODevice; FileSink is built on it) and SyslogSink
   (sinks/syslogsink.cpp, sendToSyslog).

   IODeviceSink: every message becomes ONE write of the text the sink was given - the latest formatted text, or the
   raw message when nothing formatted it (C01's rule) - in the local 8-bit encoding, followed by one newline.  A sink
   without a device does nothing; setDevice() changes where the NEXT message goes and leaves what was written alone.
   Devices are byte buffers; their content is looked at as the sequence of UTF-16 code units it decodes to.

   SyslogSink (as the code does it; docs/api/sinks.md describes the priority table): the constructor calls
   openlog(ident, option, facility), the destructor closelog(), send() calls syslog(priority, "%s", text) where text
   is the RAW message - prefixed by "<category>: " unless the category is "default" - not the formatted text, and
   priority follows the table below.  The documentation says LOG_CRIT for fatal messages, the code says LOG_EMERG;
   both are accepted (FatalPrio).
   Two facts about the C library matter and are modelled: the log is ONE per process (the last openlog wins, any
   closelog closes it for everybody - `ident`), and openlog keeps the POINTER it is given, it does not copy the
   string (`tagAlive`: whether the memory behind that pointer still holds the ident).  The constructor passes
   qPrintable(ident), a temporary that is gone when the constructor returns (conf.keepsIdent = FALSE is today's code). *)
EXTENDS Integers, Sequences, FiniteSets, TLC

CONSTANTS Devs,      \* device identities (naturals > 0); 0 = the null device pointer
          Sinks,     \* sink identities
          Texts,     \* message / formatted texts (sequences of code units)
          Cats,      \* category names (sequences of code units)
          Idents,    \* syslog identifiers
          conf       \* [keepsIdent |-> BOOLEAN]: does the sink keep the ident string alive as long as it lives

VARIABLES kind,      \* Sinks -> "none" | "io" | "sys"
          attached,  \* Sinks -> Devs \cup {0}            (IODeviceSink::m_device)
          content,   \* Devs -> sequence of code units   (what the device holds)
          lines,     \* ghost: Devs -> sequence of texts handed to sinks that were attached to the device at that time
          ident,     \* the process-wide log: [open |-> BOOLEAN, id |-> ident of the last openlog, by |-> sink]
          tagAlive,  \* is the memory the C library's ident pointer refers to still the ident string
          sysrec,    \* sequence of records handed to syslog(3): [prio, text, type, id, tagOk]
          sysid      \* Sinks -> ident given to the sink's constructor
lvars == <<kind, attached, content, lines, ident, tagAlive, sysrec, sysid>>

Types == {"debug", "warning", "critical", "fatal", "info"}
LOG_EMERG == 0   LOG_CRIT == 2   LOG_ERR == 3   LOG_WARNING == 4   LOG_INFO == 6   LOG_DEBUG == 7
FatalPrio == {LOG_EMERG, LOG_CRIT}
PrioOk(type, p) == CASE type = "debug" -> p = LOG_DEBUG
                     [] type = "info" -> p = LOG_INFO
                     [] type = "warning" -> p = LOG_WARNING
                     [] type = "critical" -> p = LOG_ERR
                     [] type = "fatal" -> p \in FatalPrio

Default == <<100, 101, 102, 97, 117, 108, 116>>           \* "default"
\* a message: [type, cat, text, fmt]; fmt = <<-1>> stands for "nothing formatted it" (a null formatted text)
Unformatted == <<-1>>
Shown(m) == IF m.fmt = Unformatted THEN m.text ELSE m.fmt
SysText(m) == IF m.cat = Default THEN m.text ELSE m.cat \o <<58, 32>> \o m.text
Msgs == [type : Types, cat : Cats, text : Texts, fmt : Texts \cup {Unformatted}]

LInit == /\ kind = [s \in Sinks |-> "none"]
         /\ attached = [s \in Sinks |-> 0]
         /\ content = [d \in Devs |-> <<>>]
         /\ lines = [d \in Devs |-> <<>>]
         /\ ident = [open |-> FALSE, id |-> <<>>, by |-> 0]
         /\ tagAlive = TRUE
         /\ sysrec = <<>>
         /\ sysid = [s \in Sinks |-> <<>>]

NewIO(s, d) == /\ kind[s] = "none" /\ d \in Devs \cup {0}
               /\ kind' = [kind EXCEPT ![s] = "io"] /\ attached' = [attached EXCEPT ![s] = d]
               /\ UNCHANGED <<content, lines, ident, tagAlive, sysrec, sysid>>
SetDevice(s, d) == /\ kind[s] = "io" /\ d \in Devs \cup {0}
                   /\ attached' = [attached EXCEPT ![s] = d]
                   /\ UNCHANGED <<kind, content, lines, ident, tagAlive, sysrec, sysid>>
SendIO(s, m) == /\ kind[s] = "io"
                /\ IF attached[s] = 0
                   THEN UNCHANGED <<content, lines>>
                   ELSE /\ content' = [content EXCEPT ![attached[s]] = @ \o Shown(m) \o <<10>>]
                        /\ lines' = [lines EXCEPT ![attached[s]] = Append(@, Shown(m))]
                /\ UNCHANGED <<kind, attached, ident, tagAlive, sysrec, sysid>>

\* SyslogSink(ident): openlog(qPrintable(ident), ...) - the temporary dies with the constructor's statement
OpenSys(s, id) == /\ kind[s] = "none"
                  /\ kind' = [kind EXCEPT ![s] = "sys"] /\ sysid' = [sysid EXCEPT ![s] = id]
                  /\ ident' = [open |-> TRUE, id |-> id, by |-> s]
                  /\ tagAlive' = conf.keepsIdent
                  /\ UNCHANGED <<attached, content, lines, sysrec>>
SendSys(s, m) == /\ kind[s] = "sys"
                 /\ \E p \in 0..7 :
                       /\ PrioOk(m.type, p)
                       /\ sysrec' = Append(sysrec, [prio |-> p, text |-> SysText(m), type |-> m.type, by |-> s,
                                                   id |-> IF ident.open THEN ident.id ELSE <<>>,
                                                   own |-> ident.open /\ ident.id = sysid[s],
                                                   tagOk |-> (~ident.open) \/ tagAlive])
                 /\ UNCHANGED <<kind, attached, content, lines, ident, tagAlive, sysid>>
\* ~SyslogSink(): closelog() - for the whole process
CloseSys(s) == /\ kind[s] = "sys"
               /\ kind' = [kind EXCEPT ![s] = "none"] /\ sysid' = [sysid EXCEPT ![s] = <<>>]
               /\ ident' = [open |-> FALSE, id |-> <<>>, by |-> 0]
               /\ tagAlive' = TRUE
               /\ UNCHANGED <<attached, content, lines, sysrec>>

LNext == \/ \E s \in Sinks, d \in Devs \cup {0} : NewIO(s, d) \/ SetDevice(s, d)
         \/ \E s \in Sinks, m \in Msgs : SendIO(s, m) \/ SendSys(s, m)
         \/ \E s \in Sinks, id \in Idents : OpenSys(s, id)
         \/ \E s \in Sinks : CloseSys(s)
LSpec == LInit /\ [][LNext]_lvars

-----------------------------------------------------------------------------
RECURSIVE Joined(_)
Joined(ls) == IF ls = <<>> THEN <<>> ELSE Head(ls) \o <<10>> \o Joined(Tail(ls))
\* a device holds exactly the lines it was sent, whole, in order, one newline after each
DeviceIsItsLines == \A d \in Devs : content[d] = Joined(lines[d])
\* what was written is never touched again (setDevice, other sinks)
DeviceAppendOnly == [][\A d \in Devs : Len(content'[d]) >= Len(content[d])
                                       /\ SubSeq(content'[d], 1, Len(content[d])) = content[d]]_lvars
SyslogPriorities == \A i \in 1..Len(sysrec) : PrioOk(sysrec[i].type, sysrec[i].prio)
\* the C library reads the ident through the pointer it kept, at every syslog() call while the log is open
IdentMemoryAlive == \A i \in 1..Len(sysrec) : sysrec[i].tagOk
\* a record carries the ident of the sink that sent it - NOT true with two sinks: the log is one per process
RecordCarriesOwnIdent == \A i \in 1..Len(sysrec) : sysrec[i].own
=============================================================================
