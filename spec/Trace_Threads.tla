--------------------------- MODULE Trace_Threads ---------------------------
(***************************************************************************)
(* Trace validation of QtlThreads against executions of the real Logger /  *)
(* OwnThreadHandler recorded by harness/drv_threads.cpp.  Logged: the      *)
(* producers' call begin / end, every QTLOGGER_VERIF point a thread passes *)
(* (with the scalars it carries), and what the probe handlers inside the   *)
(* pipeline see.  Not logged (they happen between two points, or in Qt):   *)
(* releasing a mutex at the end of a scope, the worker's decrement of the  *)
(* pending counter, QThread::quit and the end of the worker's event loop - *)
(* these are internal steps TLC places (acceptance by INVARIANT            *)
(* NotAccepted, depth-first).                                              *)
(***************************************************************************)
EXTENDS QtlThreads, Json, IOUtils

TraceLog == ndJsonDeserialize(IOEnv.TRACE)

VARIABLES l,        \* position in the trace
          tg        \* per message: what the producer passed, when the call began / ended, delivery time
tvars == <<vars, l, tg>>

IsEvent(e) == l <= Len(TraceLog) /\ TraceLog[l].e = e /\ l' = l + 1
ev == TraceLog[l]
Msg(x) == <<x[1], x[2]>>

NoTg == [fld |-> <<>>, b |-> <<>>, e |-> <<>>, d |-> <<>>]       \* sequences of [m, v]
Lookup(s, m) == LET r == SelectSeq(s, LAMBDA x : x.m = m) IN IF r = <<>> THEN [m |-> m, v |-> -1] ELSE r[1]

TInit ==
    /\ l = 1 /\ tg = NoTg
    /\ Init
    /\ conf = [useLogger |-> TRUE, recheck |-> TRUE, safeEnv |-> TRUE, locks |-> TRUE, eager |-> TRUE, rt |-> TRUE, disc |-> TRUE, fatalEvery |-> 0, rehome |-> TRUE]
    /\ todo = [t \in Producers |-> <<>>]
    /\ script = [s \in Stoppers |-> <<>>]

MsgSeq(x) == [i \in 1..Len(x) |-> Msg(x[i])]

TReset ==
    /\ IsEvent("Reset")
    /\ conf' = ev.conf
    /\ lm' = [owner |-> NoOne, depth |-> 0] /\ hm' = NoOne
    /\ tptr' = FALSE /\ wptr' = FALSE /\ thr' = "none" /\ wobj' = "none"
    /\ queue' = <<>> /\ pending' = 0 /\ app' = ev.app /\ hooked' = FALSE /\ hobj' = "alive" /\ stale' = 0
    /\ pc' = [t \in Threads |-> IF t = W THEN "gone" ELSE "idle"]
    /\ cur' = [t \in Threads |-> NoMsg]
    /\ todo' = [t \in Producers |-> IF t \in DOMAIN ev.todo THEN MsgSeq(ev.todo[t]) ELSE <<>>]
    /\ script' = [s \in Stoppers |-> IF s \in DOMAIN ev.script THEN ev.script[s] ELSE <<>>]
    /\ inPipe' = {} /\ ctr' = 0 /\ rd' = [t \in Threads |-> 0]
    /\ delivered' = <<>> /\ accepted' = <<>>
    /\ ghost' = [crashed |-> FALSE, cleared |-> {}, stops |-> 0, returned |-> {}, pre |-> <<>>]
    /\ tg' = NoTg

Same == UNCHANGED vars
KeepTg == UNCHANGED tg

TCallBegin ==
    /\ IsEvent("CallBegin")
    /\ CallBegin(ev.t) /\ UNCHANGED conf
    /\ cur'[ev.t] = Msg(ev.m)
    /\ tg' = [tg EXCEPT !.fld = Append(@, [m |-> Msg(ev.m), v |-> ev.f]), !.b = Append(@, [m |-> Msg(ev.m), v |-> ev.ms])]

\* the call is back in the caller: the locks it still holds are released on the way out
TCallEnd ==
    /\ IsEvent("CallEnd")
    /\ LET t == ev.t IN
       /\ cur[t] = Msg(ev.m)
       /\ pc[t] \in (IF conf.useLogger THEN {"pm.done"} ELSE {"oth.posted", "oth.sync.end"})
       /\ hm' = (IF hm = t THEN NoOne ELSE hm)
       /\ lm' = (IF lm.owner = t THEN [owner |-> NoOne, depth |-> 0] ELSE lm)
       /\ todo' = [todo EXCEPT ![t] = Tail(@)]
       /\ cur' = [cur EXCEPT ![t] = NoMsg]
       /\ ghost' = [ghost EXCEPT !.returned = @ \cup {cur[t]}]
       /\ Goto(t, "idle")
       /\ UNCHANGED <<conf, tptr, wptr, thr, wobj, queue, pending, app, hooked, hobj, stale, script, inPipe, ctr, rd,
                      delivered, accepted>>
    \* the message's timestamp was taken inside the call
    /\ Lookup(tg.d, Msg(ev.m)).v <= ev.ms
    /\ tg' = [tg EXCEPT !.e = Append(@, [m |-> Msg(ev.m), v |-> ev.ms])]

At(t, p) == pc[t] = p /\ Same

\* while (pending > 0) { unlock; -> point rs.wait.unlock
\* (the loop condition is read before the unlock, the point is stamped after it: the read is its own,
\* unlogged step - TSeeBusy - because the worker may decrement the counter in between)
TSeeBusy(s) ==
    /\ pc[s] \in {"rs.locked", "rs.check"}
    /\ pc[s] = "rs.locked" => tptr
    /\ pending > 0 /\ hm = s
    /\ Goto(s, "rs.unlocking")
    /\ UNCHANGED <<lm, hm, tptr, wptr, thr, wobj, queue, pending, app, hooked, hobj, stale, cur, todo, script, inPipe, ctr, rd,
                   delivered, accepted, ghost>>

TWaitUnlock(s) ==
    /\ pc[s] = "rs.unlocking"
    /\ hm' = (IF hm = s THEN NoOne ELSE hm)
    /\ Goto(s, "rs.wait.unlock")
    /\ UNCHANGED <<conf, lm, tptr, wptr, thr, wobj, queue, pending, app, hooked, hobj, stale, cur, todo, script, inPipe, ctr, rd,
                   delivered, accepted, ghost>>

\* the wait loop is left (pending = 0) and the thread is still there -> point rs.quit
TToQuit(s) ==
    /\ pc[s] \in {"rs.locked", "rs.check"}
    /\ pc[s] = "rs.locked" => tptr
    /\ pending = 0
    /\ conf.recheck => tptr
    /\ hm = s
    /\ Goto(s, "rs.quit")
    /\ UNCHANGED <<conf, lm, hm, tptr, wptr, thr, wobj, queue, pending, app, hooked, hobj, stale, cur, todo, script, inPipe, ctr, rd,
                   delivered, accepted, ghost>>

\* quit(); wait() returned -> point rs.joined: the worker's event loop has ended (RsQuit, WFinish, RsJoin)
TJoined(s) ==
    /\ pc[s] = "rs.quit" /\ hm = s
    /\ pc[W] \in {"loop", "gone"}
    /\ thr' = "finished" /\ wobj' = "freed" /\ queue' = <<>>
    /\ ghost' = [ghost EXCEPT !.crashed = @ \/ ~tptr]
    /\ pc' = [pc EXCEPT ![W] = "gone", ![s] = "rs.joined"]
    /\ UNCHANGED <<conf, lm, hm, tptr, wptr, pending, app, hooked, hobj, stale, cur, todo, script, inPipe, ctr, rd, delivered, accepted>>

\* resetOwnThread / moveToOwnThread returned to the caller
\* The decision "there is no thread (any more) - return" / "there is a thread already - return" is taken under the handler
\* mutex; the event that shows the return (Op end) is stamped after the mutex was released, so another thread's
\* move / reset may appear in between and change what the decision was based on.  The decision is therefore a step of
\* its own: logged with the point that carries the value read (rs.locked, mv.locked), unlogged after the wait loop.
TLeaveAfterWait(s) ==
    /\ pc[s] = "rs.check" /\ pending = 0 /\ ~tptr /\ conf.recheck /\ hm = s
    /\ Goto(s, "rs.leaving")
    /\ UNCHANGED <<lm, hm, tptr, wptr, thr, wobj, queue, pending, app, hooked, hobj, stale, cur, todo, script, inPipe, ctr, rd,
                   delivered, accepted, ghost>>

\* RsLock + RsNoThread's decision / MvLock + MvSkip's decision, as the points rs.locked / mv.locked show them
TRsLocked(s) ==
    /\ pc[s] = "rs.enter" /\ HAvail(s)
    /\ hm' = s
    /\ Goto(s, IF tptr THEN "rs.locked" ELSE "rs.leaving")
    /\ UNCHANGED <<conf, lm, tptr, wptr, thr, wobj, queue, pending, app, hooked, hobj, stale, cur, todo, script, inPipe, ctr, rd,
                   delivered, accepted, ghost>>

TMvLocked(s) ==
    /\ pc[s] = "idle" /\ Op(s) = "move" /\ HAvail(s)
    /\ conf.safeEnv => app = "alive"
    /\ hm' = s
    /\ Goto(s, IF tptr THEN "mv.leaving" ELSE "mv.locked")
    /\ ghost' = [ghost EXCEPT !.crashed = @ \/ hobj = "destroyed"]
    /\ UNCHANGED <<conf, lm, tptr, wptr, thr, wobj, queue, pending, app, hooked, hobj, stale, cur, todo, script, inPipe, ctr, rd,
                   delivered, accepted>>

TOpEnd(s) ==
    /\ \/ pc[s] \in {"rs.cleared", "mv.started", "rs.leaving", "mv.leaving"}
       \/ pc[s] = "rs.locked" /\ ~tptr
       \/ pc[s] = "mv.locked" /\ tptr
       \/ pc[s] = "rs.check" /\ pending = 0 /\ ~tptr /\ conf.recheck
    /\ hm' = (IF hm = s THEN NoOne ELSE hm)
    /\ NextOp(s) /\ Goto(s, "idle")
    /\ UNCHANGED <<conf, lm, tptr, wptr, thr, wobj, queue, pending, app, hooked, hobj, stale, cur, todo, inPipe, ctr, rd,
                   delivered, accepted, ghost>>

TPt ==
    /\ IsEvent("Pt")
    /\ KeepTg
    /\ LET t == ev.t
           p == ev.p
       IN  CASE p = "pm.enter"       -> At(t, "pm.enter") /\ conf.useLogger
             [] p = "pm.locked"      -> LockL(t) /\ UNCHANGED conf /\ conf.useLogger
             [] p = "oth.enter"      -> At(t, "pm.locked")
             [] p = "mv.enter"       -> At(t, "idle") /\ Op(t) = "move"
             [] p = "oth.locked"     -> LockH(t) /\ UNCHANGED conf /\ (ev.a = 1) = wptr
             [] p = "oth.posting"    -> BranchPost(t) /\ UNCHANGED conf
             [] p = "oth.posted"     -> At(t, "oth.posted")
             [] p = "oth.sync.begin" -> Branch(t) /\ UNCHANGED conf /\ ~wptr
             [] p = "oth.sync.end"   -> At(t, "oth.sync.end")
             [] p = "pm.done"        -> /\ conf.useLogger
                                        /\ \/ UnlockH(t) /\ UNCHANGED conf /\ pc'[t] = "pm.done"       \* no flush was due
                                           \/ At(t, "pm.done")                                          \* after the flush
             [] p = "wk.begin"       -> t = W /\ WTake /\ UNCHANGED conf
             [] p = "wk.processed"   -> At(W, "wk.processed") /\ t = W
             [] p = "wk.end"         -> t = W /\ WBack /\ UNCHANGED conf
             [] p = "rs.enter"       -> RsEnter(t) /\ UNCHANGED conf
             [] p = "rs.locked"      -> TRsLocked(t) /\ (ev.a = 1) = tptr
             [] p = "rs.wait.unlock" -> TWaitUnlock(t)
             [] p = "rs.wait.relock" -> RsRelock(t) /\ UNCHANGED conf
             [] p = "rs.quit"        -> TToQuit(t)
             [] p = "rs.joined"      -> TJoined(t)
             [] p = "rs.cleared"     -> RsClear(t) /\ UNCHANGED conf
             [] p = "mv.locked"      -> TMvLocked(t) /\ (ev.a = 1) = tptr
             [] p = "mv.started"     -> MvCreate(t) /\ UNCHANGED conf
             [] p \in {"lg.install", "lg.restore", "lg.dtor"} -> Same          \* handler installation: QtlInstall
             [] OTHER                -> FALSE

TEnter == IsEvent("Enter") /\ KeepTg /\ cur[ev.t] = Msg(ev.m) /\ PipeEnter(ev.t) /\ UNCHANGED conf

TDeliver ==
    /\ IsEvent("Deliver")
    /\ cur[ev.t] = Msg(ev.m)
    /\ ev.hasn /\ ev.n = ctr                                  \* consecutive sequence numbers, in delivery order
    /\ ev.f = Lookup(tg.fld, Msg(ev.m)).v                     \* every accessor as the producer passed it
    /\ Lookup(tg.b, Msg(ev.m)).v <= ev.time                    \* timestamp taken after the call began ...
    /\ LET e == Lookup(tg.e, Msg(ev.m)).v IN e = -1 \/ ev.time <= e     \* ... and before it returned
    /\ PipeRun(ev.t) /\ UNCHANGED conf
    /\ tg' = [tg EXCEPT !.d = Append(@, [m |-> Msg(ev.m), v |-> ev.time])]

\* the flush walk of a synchronously processed fatal message, seen from inside a sink
TFlush ==
    /\ IsEvent("Flush") /\ KeepTg /\ UNCHANGED conf
    /\ IF ev.ph = "begin"
       THEN LET t == ev.t IN                                  \* UnlockH, then FlushBegin
            /\ pc[t] \in {"oth.posted", "oth.sync.end"} /\ NeedsFlush(t)
            /\ hm' = (IF hm = t THEN NoOne ELSE hm)
            /\ inPipe' = inPipe \cup {t}
            /\ Goto(t, "pm.flushing")
            /\ UNCHANGED <<lm, tptr, wptr, thr, wobj, queue, pending, app, hooked, hobj, stale, cur, todo, script, ctr, rd,
                           delivered, accepted, ghost>>
       ELSE FlushEnd(ev.t)

TExit == IsEvent("Exit") /\ KeepTg /\ cur[ev.t] = Msg(ev.m) /\ PipeExit(ev.t) /\ UNCHANGED conf

TOp ==
    /\ IsEvent("Op") /\ KeepTg
    /\ IF ev.ph = "begin"
       THEN pc[ev.t] = "idle" /\ Op(ev.t) = ev.op /\ Same
       ELSE TOpEnd(ev.t) /\ (ev.left = -1 \/ Len(script'[ev.t]) = ev.left)

TApp ==
    /\ IsEvent("App") /\ KeepTg /\ UNCHANGED conf
    /\ CASE ev.op = "appCreate"  -> AppCreate(ev.t)
         [] ev.op = "execQuit"   -> AppQuit(ev.t)
         [] ev.op = "appDestroy" -> AppDestroy(ev.t)
         [] ev.op = "spin"       -> AppSpin(ev.t)
         [] ev.op = "free"       -> Free(ev.t)

AllMsgs == UNION {Set(todo[t]) : t \in Producers}
TFinished ==
    /\ IsEvent("Finished") /\ KeepTg /\ Same
    /\ \A t \in Producers : todo[t] = <<>> /\ pc[t] = "idle"
    /\ \A s \in Stoppers : script[s] = <<>> /\ pc[s] = "idle"
    /\ ~tptr /\ queue = <<>>
    /\ Set(accepted) \subseteq DeliveredMsgs
    /\ Len(delivered) = ev.total                                \* everything logged was delivered exactly once

TGate == IsEvent("GateOpen") /\ KeepTg /\ Same

\* the one step no event is logged for: the worker's lock-free decrement of the pending counter
TInternal == UNCHANGED <<l, tg, conf>> /\ (WDec \/ \E s \in Stoppers : TSeeBusy(s) \/ TLeaveAfterWait(s))

TNext == TReset \/ TCallBegin \/ TCallEnd \/ TPt \/ TEnter \/ TDeliver \/ TExit \/ TFlush \/ TOp \/ TApp \/ TFinished \/ TGate
         \/ TInternal

TraceSpec == TInit /\ [][TNext]_tvars

NotAccepted == l <= Len(TraceLog)

\* progress register for rejected traces (needs -workers 1)
Progress == TLCSet(1, IF TLCGet(1) < l THEN l ELSE TLCGet(1))
ProgressInit == TLCSet(1, 0)
ASSUME ProgressInit
ReportMax == PrintT(<<"TRACE_MAXL", TLCGet(1) - 1>>)
=============================================================================
