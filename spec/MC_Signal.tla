----------------------------- MODULE MC_Signal -----------------------------
(* Exhaustive configuration of QtlSignal: two emitting threads - the receiver's own thread "M" (direct calls) and
   another one "W" (posted calls) - with NMsgs messages each, every interleaving of emits and slot invocations. *)
EXTENDS QtlSignal

CONSTANT NMsgs
Threads == {"M", "W"}
Msg(t, k) == [id |-> (IF t = "M" THEN 0 ELSE 100) + k, src |-> t, text |-> k]
NextOf(t) == Len(From(emitted, t)) + 1

MCInit == SInit(Threads)
MCNext == \E t \in Threads :
             \/ NextOf(t) <= NMsgs /\ Emit(t, Msg(t, NextOf(t)))
             \/ inEmit[t] # None /\ DirectSlot(t, inEmit[t])
             \/ posted # <<>> /\ QueuedSlot(t, Head(posted))
MCSpec == MCInit /\ [][MCNext]_svars
AllSeenAtEnd == (\A t \in Threads : NextOf(t) > NMsgs) /\ posted = <<>> /\ InFlight = {} => Len(seen) = 2 * NMsgs
W_NeverQueuedBehindDirect == ~(\E i \in 1..Len(seen) : \E j \in 1..Len(seen) : i < j /\ seen[i].m.src = "M" /\ seen[j].m.src = "W" /\ seen[j].m.id - 100 < seen[i].m.id)
=============================================================================
