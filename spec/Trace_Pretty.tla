---------------------------- MODULE Trace_Pretty ----------------------------
(* Validation of recorded PrettyFormatter output (one formatter object per run, a stream of messages created on
   several threads) against the automaton of QtlPretty. *)
EXTENDS QtlPretty, Json, IOUtils, TLC

TraceLog == ndJsonDeserialize(IOEnv.TRACE)
VARIABLES l, st
ev == TraceLog[l]
TInit == l = 1 /\ st = Init0(0)
TReset == l <= Len(TraceLog) /\ ev.e = "Reset" /\ st' = Init0(ev.maxw) /\ l' = l + 1
TLine == /\ l <= Len(TraceLog) /\ ev.e = "Line"
         /\ LET r == Step(st, ev.m) IN r.line = ev.line /\ st' = r.st
         /\ l' = l + 1
TraceSpec == TInit /\ [][TReset \/ TLine]_<<l, st>>
TraceAccepted ==
    LET d == TLCGet("stats").diameter
    IN  /\ PrintT(<<"TRACE_MATCHED", d - 1, Len(TraceLog)>>)
        /\ d - 1 = Len(TraceLog)
=============================================================================
