SPECIFICATION MCSpec
CONSTANTS NP = 3
          MaxItems = 5
          MaxMsgs = 1
          MenuName = "small"
INVARIANT Agree
INVARIANT SinkTextRule
PROPERTY ChildNeverStopsParent
PROPERTY ScopedInvisible
PROPERTY RejectionIsLocal
PROPERTY SeqMonotone
CHECK_DEADLOCK FALSE
