INIT MCInit
NEXT MCNext
