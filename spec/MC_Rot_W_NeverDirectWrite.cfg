SPECIFICATION MCSpec
CONSTANTS
    BufCap = 3
    Ls = {3}
    Ns = {2}
    Opts = {6}
    Sizes = {2, 4}
    MaxSends = 4
    MaxDay = 1
    MaxRestarts = 1
    MaxCrash = 1
    MaxFault = 1
    MaxGzWrites = 2
    Ticks = FALSE
    Fatal = FALSE
    FlushOnFatal = TRUE
    ZoneBack = FALSE
    ZoneTies = FALSE
INVARIANT W_NeverDirectWrite
CHECK_DEADLOCK FALSE
