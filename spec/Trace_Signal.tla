--------------------------- MODULE Trace_Signal ---------------------------
(* Validation of recorded SignalSink executions (harness/drv_signal.cpp) against QtlSignal: "Emit" events are logged by
   a probe handler right in front of the sink (thread, message fields as the pipeline has them), "Slot" events by the
   receiver's slot (thread, fields of the message it was given).  The slot's record must be, field for field, the
   emitted one. *)
EXTENDS QtlSignal, Json, IOUtils, TLC

TraceLog == ndJsonDeserialize(IOEnv.TRACE)
VARIABLE l
ev == TraceLog[l]
IsEvent(e) == l <= Len(TraceLog) /\ TraceLog[l].e = e /\ l' = l + 1
Threads == {"M", "W", "P"}

TInit == l = 1 /\ SInit(Threads)
TReset == IsEvent("Reset") /\ posted' = <<>> /\ inEmit' = [t \in Threads |-> None] /\ emitted' = <<>> /\ seen' = <<>>
TEmit == IsEvent("Emit") /\ Emit(ev.t, ev.m)
TSlot == IsEvent("Slot") /\ (DirectSlot(ev.t, ev.m) \/ QueuedSlot(ev.t, ev.m))
\* the run is over: the event loop has drained, nothing is waiting
TDone == IsEvent("Done") /\ posted = <<>> /\ InFlight = {} /\ Len(seen) = Len(emitted) /\ UNCHANGED svars
TraceSpec == TInit /\ [][TReset \/ TEmit \/ TSlot \/ TDone]_<<svars, l>>
TraceAccepted ==
    LET d == TLCGet("stats").diameter
    IN  /\ PrintT(<<"TRACE_MATCHED", d - 1, Len(TraceLog)>>)
        /\ d - 1 = Len(TraceLog)
=============================================================================
