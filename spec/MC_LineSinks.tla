---------------------------- MODULE MC_LineSinks ----------------------------
EXTENDS QtlLineSinks
CONSTANTS MaxRec
MCTexts == {<<97>>, <<>>}
MCCats == {<<100, 101, 102, 97, 117, 108, 116>>, <<110>>}
MCIdents == {<<120>>, <<121>>}
MCConfKeeps == [keepsIdent |-> TRUE]
MCConfToday == [keepsIdent |-> FALSE]
\* eight messages: every type, both kinds of category, formatted and not
MCMsgs == {[type |-> "debug", cat |-> <<110>>, text |-> <<97>>, fmt |-> Unformatted],
           [type |-> "info", cat |-> <<100, 101, 102, 97, 117, 108, 116>>, text |-> <<97>>, fmt |-> <<98>>],
           [type |-> "warning", cat |-> <<110>>, text |-> <<>>, fmt |-> <<98>>],
           [type |-> "critical", cat |-> <<100, 101, 102, 97, 117, 108, 116>>, text |-> <<98>>, fmt |-> <<>>],
           [type |-> "fatal", cat |-> <<110>>, text |-> <<98>>, fmt |-> Unformatted]}
RECURSIVE SumLines(_)
SumLines(D) == IF D = {} THEN 0 ELSE LET d == CHOOSE x \in D : TRUE IN Len(lines[d]) + SumLines(D \ {d})
\* at most MaxRec messages in all (device lines and syslog records together)
Bound == Len(sysrec) + SumLines(Devs) <= MaxRec
=============================================================================
