SPECIFICATION Spec
CONSTANTS MaxRules = 2
          MaxPat = 2
          MaxCat = 3
          TypedSet = {"", "debug", "critical"}
INVARIANT Agree
INVARIANT NoRuleMeansPass
INVARIANT GlobAlgebra
INVARIANT LastAppendedWins
CHECK_DEADLOCK FALSE
