CONSTANTS
  Devs = {1, 2}
  Sinks = {1, 2}
  Texts <- MCTexts
  Cats <- MCCats
  Idents <- MCIdents
  conf <- MCConfKeeps
  MaxRec = 2
  Msgs <- MCMsgs
SPECIFICATION LSpec
CONSTRAINT Bound
INVARIANTS DeviceIsItsLines SyslogPriorities IdentMemoryAlive
PROPERTIES DeviceAppendOnly
CHECK_DEADLOCK FALSE
