---------------------------- MODULE Trace_Json ----------------------------
(* Validation of recorded JsonFormatter / SentryFormatter results (parsed by the projection) against QtlJson.
   The only state is the set of Sentry event ids seen so far (freshness). *)
EXTENDS QtlJson, Json, IOUtils

TraceLog == ndJsonDeserialize(IOEnv.TRACE)
VARIABLES l, ids
ev == TraceLog[l]

TInit == l = 1 /\ ids = {}
TJson == /\ l <= Len(TraceLog) /\ ev.e = "Json"
         /\ JsonObligations(ev.msg, ev.compact, ev.out)
         /\ l' = l + 1 /\ UNCHANGED ids
TSentry == /\ l <= Len(TraceLog) /\ ev.e = "Sentry"
           /\ SentryObligations(ev.msg, ev.utc, ev.out, ids)
           /\ ids' = ids \cup {ev.out.id}
           /\ l' = l + 1
\* sentryUrl() in its three spellings and sentryHeaders()
TUrl == /\ l <= Len(TraceLog) /\ ev.e = "Url"
        /\ ev.dsn = SentryDsn(ev.host, ev.project, ev.key)              \* what the driver was given
        /\ ev.fromDsn = SentryUrl(ev.host, ev.project, ev.key)
        /\ ev.fromParts = SentryUrl(ev.host, ev.project, ev.key)
        /\ ev.fromEnvDsn = SentryUrl(ev.host, ev.project, ev.key)
        /\ ev.fromEnvParts = SentryUrl(ev.host, ev.project, ev.key)
        /\ ev.ctype = SentryContentType /\ ev.envOk
        /\ l' = l + 1 /\ UNCHANGED ids
TraceSpec == TInit /\ [][TJson \/ TSentry \/ TUrl]_<<l, ids>>
TraceAccepted ==
    LET d == TLCGet("stats").diameter
    IN  /\ PrintT(<<"TRACE_MATCHED", d - 1, Len(TraceLog)>>)
        /\ d - 1 = Len(TraceLog)
=============================================================================
