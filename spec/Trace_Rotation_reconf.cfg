SPECIFICATION TraceSpec
CONSTANT BufCap = 16384
INVARIANT TypeOK
INVARIANT ReadBackIsHistory
INVARIANT NoDuplicates
INVARIANT FlushedRecoverable
INVARIANT ForeignUntouched
INVARIANT GzFaithful
PROPERTY T_OrigRemovedOnlyAfterGzClosed
PROPERTY T_NamesNeverReused
POSTCONDITION TraceAccepted
CHECK_DEADLOCK FALSE
