CONSTANTS
  Apps = {"o1/a1", "o1/a2"}
  Vers = {""}
  H = {1, 2}
  MaxFresh = 3
  MaxWipes = 1
SPECIFICATION ESpec
CONSTRAINT Bound
INVARIANTS OneUuidPerUser
CHECK_DEADLOCK FALSE
