------------------------------ MODULE MC_Json ------------------------------
(* Sanity of the helper functions of QtlJson on concrete values (evaluated by TLC as assumptions), and of the
   obligations themselves on a hand-written correct / incorrect output. *)
EXTENDS QtlJson

ASSUME Iso == IsoUtc(<<2024, 5, 15, 1, 2, 3>>) = <<50,48,50,52,45,48,53,45,49,53,84,48,49,58,48,50,58,48,51,90>>
ASSUME Nums == Num(0).v = <<48>> /\ Num(42).v = <<52,50>> /\ Num(-7).v = <<45,55>> /\ Num(65535).v = <<54,53,53,51,53>>
ASSUME Routes == \A a, b \in Routed : a[1] = b[1] => a = b
ASSUME EightRoutes == Cardinality(Routed) = 8

M1 == [type |-> "critical", text |-> <<97, 34, 10>>, cat |-> <<110, 101, 116>>, file |-> <<>>, func |-> <<>>, line |-> 42,
       attrs |-> << [k |-> <<97,112,112,110,97,109,101>>, v |-> Str(<<65>>)], [k |-> <<107>>, v |-> Num(7)] >>]
Good == [ok |-> TRUE, id |-> [i \in 1..32 |-> 97], ts |-> IsoUtc(<<2024,5,15,1,2,3>>), level |-> <<101,114,114,111,114>>,
         haslogger |-> TRUE, logger |-> Str(<<110,101,116>>), formatted |-> Str(<<97,34,10>>),
         fp |-> << Str(<<101,114,114,111,114>>), Str(<<110,101,116>>), Str(<<97,34,10>>) >>,
         tags |-> << [k |-> <<97,112,112,95,110,97,109,101>>, v |-> Str(<<65>>)] >>,
         extra |-> << [k |-> <<107>>, v |-> Num(7)] >>, os |-> <<>>, device |-> <<>>]
ASSUME GoodAccepted == SentryObligations(M1, <<2024,5,15,1,2,3>>, Good, {})
ASSUME StaleIdRejected == ~SentryObligations(M1, <<2024,5,15,1,2,3>>, Good, {Good.id})
ASSUME MisfiledRejected == ~SentryObligations(M1, <<2024,5,15,1,2,3>>,
                              [Good EXCEPT !.extra = Append(@, [k |-> <<97,112,112,110,97,109,101>>, v |-> Str(<<65>>)])], {})
ASSUME WrongLevelRejected == ~SentryObligations(M1, <<2024,5,15,1,2,3>>, [Good EXCEPT !.level = <<99,114,105,116,105,99,97,108>>], {})

VARIABLE dummy
Spec == dummy = 0 /\ [][UNCHANGED dummy]_dummy
=============================================================================
