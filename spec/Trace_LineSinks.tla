--------------------------- MODULE Trace_LineSinks ---------------------------
(* Recorded histories of IODeviceSink and SyslogSink objects (harness/drv_env.cpp, mode sinks).  After every call the
   driver reports what every device holds (decoded from UTF-8) and which calls reached the C library's syslog
   interface (openlog / syslog / closelog are defined in the driver, so the library's calls end there). *)
EXTENDS QtlLineSinks, Json, IOUtils

TraceLog == ndJsonDeserialize(IOEnv.TRACE)
VARIABLE l
ev == TraceLog[l]
IsEvent(e) == l <= Len(TraceLog) /\ TraceLog[l].e = e /\ l' = l + 1
IsOp(o) == IsEvent("S") /\ TraceLog[l].op = o

TypeName(t) == CASE t = 0 -> "debug" [] t = 1 -> "warning" [] t = 2 -> "critical" [] t = 3 -> "fatal" [] t = 4 -> "info"
MsgOf(m) == [type |-> TypeName(m.type), cat |-> m.cat, text |-> m.text, fmt |-> m.fmt]

\* the devices as the driver saw them after the call = the model's devices after the step (devices never written to
\* and never attached are not listed); every device's bytes were valid UTF-8
DevsMatch == /\ \A i \in 1..Len(ev.devs) : ev.devs[i][1] \in Devs /\ content'[ev.devs[i][1]] = ev.devs[i][2] /\ ev.devs[i][3]
             /\ \A d \in Devs : (\A i \in 1..Len(ev.devs) : ev.devs[i][1] # d) => content'[d] = <<>>
NoCalls == Len(ev.calls) = 0

TInit == LInit /\ l = 1
TReset == /\ IsEvent("Reset")
          /\ kind' = [s \in Sinks |-> "none"] /\ attached' = [s \in Sinks |-> 0]
          /\ content' = [d \in Devs |-> <<>>] /\ lines' = [d \in Devs |-> <<>>]
          /\ ident' = [open |-> FALSE, id |-> <<>>, by |-> 0] /\ tagAlive' = TRUE /\ sysrec' = <<>>
          /\ sysid' = [s \in Sinks |-> <<>>]
TNewIO == IsOp("newio") /\ NewIO(ev.s, ev.d) /\ DevsMatch /\ NoCalls
TSetDevice == IsOp("setdev") /\ SetDevice(ev.s, ev.d) /\ DevsMatch /\ NoCalls
TSendIO == IsOp("sendio") /\ SendIO(ev.s, MsgOf(ev.m)) /\ DevsMatch /\ NoCalls
\* the constructor makes exactly one call: openlog(ident, LOG_PID, LOG_USER)
TOpenSys == /\ IsOp("opensys") /\ OpenSys(ev.s, ev.ident) /\ DevsMatch
            /\ Len(ev.calls) = 1 /\ ev.calls[1].c = "openlog" /\ ev.calls[1].ident = ev.ident
            /\ ev.calls[1].option = 1 /\ ev.calls[1].facility = 8
\* send makes exactly one call: syslog(priority, "%s", text); identAlive is the sanitizer's view of the memory behind
\* the pointer openlog was given: 1 alive, 0 freed, -1 no pointer (log closed)
TSendSys == /\ IsOp("sendsys") /\ SendSys(ev.s, MsgOf(ev.m)) /\ DevsMatch
            /\ Len(ev.calls) = 1 /\ ev.calls[1].c = "syslog"
            /\ LET r == sysrec'[Len(sysrec')]
               IN  /\ r.prio = ev.calls[1].prio
                   /\ r.text = ev.calls[1].text
                   /\ (ev.calls[1].identAlive = 0) = (~r.tagOk)
TCloseSys == /\ IsOp("closesys") /\ CloseSys(ev.s) /\ DevsMatch
             /\ Len(ev.calls) = 1 /\ ev.calls[1].c = "closelog"
TNext == TReset \/ TNewIO \/ TSetDevice \/ TSendIO \/ TOpenSys \/ TSendSys \/ TCloseSys
TraceSpec == TInit /\ [][TNext]_<<lvars, l>>
TraceAccepted ==
    LET d == TLCGet("stats").diameter
    IN  /\ PrintT(<<"TRACE_MATCHED", d - 1, Len(TraceLog)>>)
        /\ d - 1 = Len(TraceLog)
\* constants of the trace configurations
TConfToday == [keepsIdent |-> FALSE]
TConfKeeps == [keepsIdent |-> TRUE]
NoTexts == {}
=============================================================================
