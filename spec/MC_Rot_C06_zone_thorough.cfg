SPECIFICATION MCSpec
CONSTANTS
    BufCap = 3
    Ls = {3}
    Ns = {0, 2, 3}
    Opts = {0, 2, 4}
    Sizes = {2}
    MaxSends = 5
    MaxDay = 1
    MaxRestarts = 1
    MaxCrash = 0
    MaxFault = 0
    MaxGzWrites = 1
    Ticks = TRUE
    Fatal = FALSE
    FlushOnFatal = TRUE
    ZoneBack = TRUE
    ZoneTies = FALSE
INVARIANT TypeOK
INVARIANT ReadBackIsHistory
INVARIANT CountBound
INVARIANT SurvivorsAreRecentSuffix
INVARIANT NoRetentionWhenUnlimited
INVARIANT NoRotationWhenOne
INVARIANT ForeignUntouched
INVARIANT SizeBound
INVARIANT GzFaithful
INVARIANT DaysApart
INVARIANT NameCarriesDay
INVARIANT FlushedRecoverable
INVARIANT NoDuplicates
INVARIANT FatalDurableInv
PROPERTY OrigRemovedOnlyAfterGzClosed
PROPERTY NamesNeverReused
CHECK_DEADLOCK FALSE
