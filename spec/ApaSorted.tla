---------------------------- MODULE ApaSorted ----------------------------
EXTENDS QtlSorted, Apalache

\* all handler lists of up to 5 entries and all object tables of up to 4 objects that satisfy the invariant
IndInit ==
    /\ hs = Gen(5)
    /\ made = Gen(4)
    /\ next = Len(made) + 1
    /\ ncalls \in 0..20
    /\ \A a \in DOMAIN hs : /\ hs[a].c \in Classes /\ hs[a].k >= 1 /\ hs[a].k <= ncalls
                            /\ hs[a].i >= 1 /\ hs[a].i <= Len(made) /\ made[hs[a].i] = hs[a].c
    /\ \A j \in DOMAIN made : made[j] \in Classes
    /\ C17

IndInv ==
    /\ next = Len(made) + 1
    /\ \A a \in DOMAIN hs : /\ hs[a].c \in Classes /\ hs[a].k >= 1 /\ hs[a].k <= ncalls
                            /\ hs[a].i >= 1 /\ hs[a].i <= Len(made) /\ made[hs[a].i] = hs[a].c
    /\ \A j \in DOMAIN made : made[j] \in Classes
    /\ C17
\* non-vacuity: the start predicate of the inductive step admits full-length lists with several classes
NotFull == ~(Len(hs) = 5 /\ hs[1].c # hs[5].c /\ Len(made) = 4)
=============================================================================
