SPECIFICATION TraceSpec
INVARIANT C17
POSTCONDITION TraceAccepted
CHECK_DEADLOCK FALSE
