SPECIFICATION Spec
