SPECIFICATION MCFairSpec
CONSTANTS Producers = {"p1", "p2"}
          Stoppers = {"M", "S2"}
          UseLogger = TRUE
          RecheckThread = TRUE
          SafeEnv = TRUE
          Locks = TRUE
          RealTime = FALSE
          Disconnect = TRUE
          FatalEvery = 0
          NMsgs = 2
          ScriptSet = {"quit2"}
          Script2Set = {"move"}
INVARIANT TypeOK
INVARIANT MutualExclusion
INVARIANT NoDoubleDelivery
INVARIANT SeqConsecutive
INVARIANT ProducerOrder
INVARIANT SyncDeliveredOnReturn
INVARIANT WorkerOnly
INVARIANT AsyncOrder
INVARIANT RealTimeOrder
INVARIANT LateMessagesSync
INVARIANT DrainBeforeStop
INVARIANT NoUseAfterFree
INVARIANT AllDeliveredAtEnd

CHECK_DEADLOCK FALSE
PROPERTY QuitFindsHook
