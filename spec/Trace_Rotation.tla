--------------------------- MODULE Trace_Rotation ---------------------------
(***************************************************************************)
(* Trace validation of QtlRotation against executions of the real          *)
(* RotatingFileSink / FileSink recorded by harness/drv_rotation.cpp under   *)
(* the libc interposer (vlib/rotation.py projects the raw directory        *)
(* listings to abstract files).  One "Sys" event per libc call = one       *)
(* labelled step of the machine; the internal steps in between are taken   *)
(* by the spec (Settle) and are deterministic, so validation is linear.    *)
(* "End" / "Crash" events carry the directory the implementation really    *)
(* produced; it must be the spec's directory, file by file.                *)
(***************************************************************************)
EXTENDS QtlRotation, Json, IOUtils

TraceLog == ndJsonDeserialize(IOEnv.TRACE)

VARIABLE l
tvars == <<vars, l>>

IsEvent(e) == l <= Len(TraceLog) /\ TraceLog[l].e = e /\ l' = l + 1
ev == TraceLog[l]

DirOf(files) ==
    [n \in {files[i].n : i \in 1..Len(files)} |->
        LET f == CHOOSE x \in {files[i] : i \in 1..Len(files)} : x.n = n
        IN  File(f.st, f.recs, f.mt, f.h)]

\* does the observed directory (projection of the real one) agree with the spec's?
MatchFile(d, f) ==
    /\ d.mt = f.mt
    /\ CASE d.st = "plain"   -> f.st = "plain" /\ f.recs = d.recs
         [] d.st = "gz"      -> f.st = "gz" /\ f.recs = d.recs
         [] d.st = "gzw"     -> f.st \in {"gz", "bad"}
         [] d.st = "foreign" -> f.st = "foreign" /\ f.h = d.h
         [] d.st = "special" -> f.st = "special"
MatchDir(D, files) ==
    /\ {files[i].n : i \in 1..Len(files)} = DOMAIN D
    /\ \A i \in 1..Len(files) : MatchFile(D[files[i].n], files[i])

TInit ==
    /\ l = 1
    /\ InitWith([L |-> 0, N |-> 0, startup |-> FALSE, daily |-> FALSE, gz |-> FALSE],
                [n \in {} |-> 0], <<>>, <<>>, <<>>, <<0, 0>>)

TReset ==
    /\ IsEvent("Reset")
    /\ LET D0 == DirOf(ev.files)
       IN  /\ cfg' = ev.cfg /\ dir' = D0 /\ sk' = Dead /\ now' = ev.t
           /\ g' = Ghost0(D0, ev.rlen, ev.rday, ev.hist)

TNow == IsEvent("Now") /\ SetNow(ev.t)
TZone == IsEvent("Zone") /\ ShiftZone(ev.z, ev.t)

TBegin ==
    /\ IsEvent("Begin")
    /\ CASE ev.op = "send"    -> ev.rec = Len(g.rlen) + 1 /\ BeginSend(ev.len)
         [] ev.op = "flush"   -> BeginFlush
         [] ev.op = "destroy" -> BeginDestroy
         [] ev.op = "ctor"    -> IF "cfg" \in DOMAIN ev THEN BeginConstructWith(ev.cfg) ELSE BeginConstruct

\* Settle, additionally passing over flushes that are only a side effect of a size query when the
\* implementation did not perform them (the next observed call is not that write)
RECURSIVE SettleObs(_, _)
SettleObs(S, lab) ==
    LET S1 == Settle(S, cfg, now)
    IN  IF ~AtRest(S1) /\ OptionalFlushPc(S1.sk.pc) /\ NeedsSys(S1) /\ lab \notin SysLabels(S1)
        THEN SettleObs([S1 EXCEPT !.sk.pc = FlushNext(S1.sk.pc)], lab)
        \* the compression step is followed in its order-insensitive form (QtlRotation!GzAnyLabels)
        ELSE IF S1.sk.pc = "gzOpenIn"
        THEN SettleObs([S1 EXCEPT !.sk.pc = "gzAny", !.sk.inOpen = FALSE, !.sk.inClosed = FALSE, !.sk.outOpen = FALSE,
                                  !.sk.outClosed = FALSE, !.sk.wrote = FALSE], lab)
        \* ... and is over when nothing is open any more and the next call is not part of it
        ELSE IF S1.sk.pc = "gzAny" /\ GzAnyQuiet(S1) /\ lab \notin GzAnyLabels(S1)
        THEN SettleObs([S1 EXCEPT !.sk.pc = "ret"], lab)
        ELSE S1

WRITE_ACTIVE == Lab("write", ACTIVE, NONE, "")

TSys ==
    /\ IsEvent("Sys")
    /\ sk.alive
    /\ LET lab == Lab(ev.c, ev.f, ev.t, ev.m)
           S0 == SettleObs(Here, lab)
           \* tolerance: a size rotation may come earlier than the limit demands (no property forbids a file that is
           \* shorter than it could be); tried only when the step-by-step decision does not explain the observed call
           S1 == SettleObs([Here EXCEPT !.sk.early = (cfg.L > 0)], lab)
           Fits(X) == ~AtRest(X) /\ NeedsSys(X) /\ lab \in ObservableLabels(X)
           S == IF Fits(S0) \/ ~Fits(S1) THEN S0 ELSE S1
       IN  IF ~AtRest(S) /\ NeedsSys(S) /\ lab \in ObservableLabels(S)
           THEN /\ SysEnabled(S, lab, ev.ok)
                \* a write to the active file carries exactly the bytes the spec expects
                /\ (lab = WRITE_ACTIVE) =>
                      ev.n = (IF S.sk.pc = "appW" THEN S.g.rlen[S.sk.msg] ELSE SumLen(S.g, S.sk.buf))
                /\ Become(DoSys(S, cfg, now, lab, ev.ok))
           ELSE \* a flush at a moment of the implementation's choosing: the whole buffer, in one write
                /\ lab = WRITE_ACTIVE /\ ev.ok
                /\ S.sk.open /\ S.sk.buf # <<>>
                /\ ev.n = SumLen(S.g, S.sk.buf)
                /\ Become(FlushNow(S, now))
    /\ UNCHANGED <<cfg, now>>

\* the public call returned: no libc call is outstanding and the directory is the spec's
TEnd ==
    /\ IsEvent("End")
    /\ LET S == SettleObs(Here, Lab("return", NONE, NONE, ""))
       IN  /\ AtRest(S)
           /\ MatchDir(S.dir, ev.files)
           /\ Become(S)
    /\ UNCHANGED <<cfg, now>>

\* the same without a directory listing (long histories)
TEndQ ==
    /\ IsEvent("EndQ")
    /\ LET S == SettleObs(Here, Lab("return", NONE, NONE, ""))
       IN  AtRest(S) /\ Become(S)
    /\ UNCHANGED <<cfg, now>>

\* Qt aborted the process after the message handler had returned from a FATAL message (C11): the sink is at
\* rest, holds nothing back, and the files are the spec's
TFatal ==
    /\ IsEvent("Fatal")
    /\ sk.alive
    /\ LET S == SettleObs(Here, Lab("return", NONE, NONE, ""))
       IN  /\ AtRest(S)
           /\ FatalDurable(S)
           /\ MatchDir(S.dir, ev.files)
           /\ dir' = S.dir /\ g' = [S.g EXCEPT !.crashed = TRUE] /\ sk' = Dead
    /\ UNCHANGED <<cfg, now>>

\* the process was killed right before its next libc call
TCrash ==
    /\ IsEvent("Crash")
    /\ MatchDir(dir, ev.files)
    /\ Crash

TNext == TReset \/ TNow \/ TZone \/ TBegin \/ TSys \/ TEnd \/ TEndQ \/ TFatal \/ TCrash

\* the action properties of QtlRotation, not applied to the step that starts the next recorded execution
ResetStep == l <= Len(TraceLog) /\ TraceLog[l].e = "Reset"
T_OrigRemovedOnlyAfterGzClosed == [][ResetStep \/ OrigRemovedStep]_tvars
T_NamesNeverReused == [][ResetStep \/ NamesStep]_tvars

TraceSpec == TInit /\ [][TNext]_tvars

TraceAccepted ==
    LET d == TLCGet("stats").diameter
    IN  /\ PrintT(<<"TRACE_MATCHED", d - 1, Len(TraceLog)>>)
        /\ d - 1 = Len(TraceLog)
=============================================================================
