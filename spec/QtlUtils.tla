------------------------------- MODULE QtlUtils -------------------------------
(***************************************************************************)
(* The process-wide helpers of utils.cpp (beyond the listed properties):   *)
(*   setMessagePattern(p)              sets Qt's message pattern, remembers *)
(*                                     the one it replaces, returns it      *)
(*   restorePreviousMessagePattern()   swaps back                           *)
(*   setFilterRules("a=false;b=true")  Qt's category rules with ';' or ':'  *)
(*                                     as separators                        *)
(* The first two are a two-slot history machine: `cur` is the pattern the   *)
(* library believes is installed, `prev` the one it replaced, `qt` the      *)
(* pattern Qt really formats with (somebody else may call                   *)
(* qSetMessagePattern directly: Foreign).  Patterns are abstract names; the *)
(* words "default" and "pretty" (any case) stand for the two built-in       *)
(* patterns.                                                                *)
(***************************************************************************)
EXTENDS Integers, Sequences

CONSTANT Names                       \* pattern names, containing "default" and "pretty"
Canon(p) == CASE p \in {"default", "DEFAULT", "Default"} -> "default"
              [] p \in {"pretty", "PRETTY", "Pretty"} -> "pretty"
              [] OTHER -> p

VARIABLES cur, prev, qt, ret         \* ret: what the latest call returned ("-" for Foreign)
uvars == <<cur, prev, qt, ret>>

UInit == cur = "default" /\ prev = "default" /\ qt = "default" /\ ret = "-"

SetTo(c) ==
    IF cur = c THEN /\ ret' = cur                         \* already believed to be in force: nothing is touched,
                    /\ UNCHANGED <<cur, prev, qt>>        \* not even Qt's pattern (see LibraryBelief)
    ELSE /\ prev' = cur
         /\ cur' = c
         /\ qt' = c
         /\ ret' = cur                                    \* "returns the previous pattern"

Set(p) == SetTo(Canon(p))
RestorePrev == SetTo(prev)
Foreign(q) == qt' = q /\ ret' = "-" /\ UNCHANGED <<cur, prev>>

UNext == (\E p \in Names \cup {"DEFAULT", "Pretty"} : Set(p)) \/ RestorePrev \/ (\E q \in Names : Foreign(q))

\* A change followed by a restore brings the earlier pattern back, in the library's belief and in Qt.
RestoreSwaps == [][ (ret' # "-" /\ cur' # cur) => (prev' = cur /\ qt' = cur' /\ ret' = cur) ]_uvars
\* What the library believes is what Qt uses, unless somebody else set Qt's pattern since.
LibraryBelief == [][ (qt = cur /\ ret' # "-") => qt' = cur' ]_uvars
\* set(p); restore; restore  is  set(p)  (the two slots only swap)

TypeOK == cur \in Names /\ prev \in Names

---------------------------------------------------------------------------
\* setFilterRules: the argument is split at ';' and ':' and handed to Qt, one rule per line.
SplitRules(s) ==
    LET F[i \in 0..Len(s)] ==
            IF i = 0 THEN << <<>> >>
            ELSE LET acc == F[i - 1] IN
                 IF s[i] \in {59, 58} THEN Append(acc, <<>>)                       \* ';' = 59, ':' = 58
                 ELSE [acc EXCEPT ![Len(acc)] = Append(@, s[i])]
    IN  F[Len(s)]
=============================================================================
