------------------------------- MODULE QtlUtils -------------------------------
(***************************************************************************)
(* The process-wide helpers of utils.cpp (beyond the listed properties):   *)
(*   setMessagePattern(p)              sets Qt's message pattern, remembers *)
(*                                     the one it replaces, returns it      *)
(*   restorePreviousMessagePattern()   swaps back                           *)
(*   setFilterRules("a=false;b=true")  Qt's category rules with ';' or ':'  *)
(*                                     as separators                        *)
(* The first two are a two-slot history machine: `cur` is the pattern the   *)
(* library believes is installed, `prev` the one it replaced, `qt` the      *)
(* pattern Qt really formats with (somebody else may call                   *)
(* qSetMessagePattern directly: Foreign).  Patterns are abstract names; the *)
(* words "default" and "pretty" (any case) stand for the two built-in       *)
(* patterns.                                                                *)
(***************************************************************************)
EXTENDS Integers, Sequences

CONSTANT Names                       \* pattern names, containing "default" and "pretty"
Canon(p) == CASE p \in {"default", "DEFAULT", "Default"} -> "default"
              [] p \in {"pretty", "PRETTY", "Pretty"} -> "pretty"
              [] OTHER -> p

VARIABLES cur, prev, qt, ret         \* ret: what the latest call returned ("-" for Foreign)
uvars == <<cur, prev, qt, ret>>

UInit == cur = "default" /\ prev = "default" /\ qt = "default" /\ ret = "-"

SetTo(c) ==
    IF cur = c THEN /\ ret' = cur                         \* already believed to be in force: nothing is touched,
                    /\ UNCHANGED <<cur, prev, qt>>        \* not even Qt's pattern (see LibraryBelief)
    ELSE /\ prev' = cur
         /\ cur' = c
         /\ qt' = c
         /\ ret' = cur                                    \* "returns the previous pattern"

Set(p) == SetTo(Canon(p))
RestorePrev == SetTo(prev)
Foreign(q) == qt' = q /\ ret' = "-" /\ UNCHANGED <<cur, prev>>

UNext == (\E p \in Names \cup {"DEFAULT", "Pretty"} : Set(p)) \/ RestorePrev \/ (\E q \in Names : Foreign(q))

\* A change followed by a restore brings the earlier pattern back, in the library's belief and in Qt.
RestoreSwaps == [][ (ret' # "-" /\ cur' # cur) => (prev' = cur /\ qt' = cur' /\ ret' = cur) ]_uvars
\* What the library believes is what Qt uses, unless somebody else set Qt's pattern since.
LibraryBelief == [][ (qt = cur /\ ret' # "-") => qt' = cur' ]_uvars
\* set(p); restore; restore  is  set(p)  (the two slots only swap)

TypeOK == cur \in Names /\ prev \in Names

---------------------------------------------------------------------------
\* setFilterRules: the argument is split at ';' and ':' and handed to Qt, one rule per line.
SplitRules(s) ==
    LET F[i \in 0..Len(s)] ==
            IF i = 0 THEN << <<>> >>
            ELSE LET acc == F[i - 1] IN
                 IF s[i] \in {59, 58} THEN Append(acc, <<>>)                       \* ';' = 59, ':' = 58
                 ELSE [acc EXCEPT ![Len(acc)] = Append(@, s[i])]
    IN  F[Len(s)]
---------------------------------------------------------------------------
\* FileSink (sinks/filesink.cpp, replaceTimePattern): a "%{time <format>}" in the path is replaced by the current date
\* and time in that Qt format ("yyyyMMdd_hhmmss" when the format is empty) - the LAST such pattern of the path, and only
\* that one; its format runs up to the first '}' and blanks after "time" do not belong to it.
TIMEKEY == <<37, 123, 116, 105, 109, 101>>                          \* %{time
Starts(s, i, pat) == i + Len(pat) - 1 <= Len(s) /\ SubSeq(s, i, i + Len(pat) - 1) = pat
KeyPositions(s) == {i \in 1..Len(s) : Starts(s, i, TIMEKEY) /\ \E j \in (i + Len(TIMEKEY))..Len(s) : s[j] = 125}
Max(S) == CHOOSE x \in S : \A y \in S : y <= x
Min(S) == CHOOSE x \in S : \A y \in S : x <= y
HasTimePattern(s) == KeyPositions(s) # {}
KeyAt(s) == Max(KeyPositions(s))
CloseAt(s) == Min({j \in (KeyAt(s) + Len(TIMEKEY))..Len(s) : s[j] = 125})
RECURSIVE SkipBlanks(_, _)
SkipBlanks(s, i) == IF i <= Len(s) /\ s[i] = 32 THEN SkipBlanks(s, i + 1) ELSE i
TimeFormatOf(s) == LET a == SkipBlanks(s, KeyAt(s) + Len(TIMEKEY)) IN
                   IF a > CloseAt(s) - 1 THEN <<>> ELSE SubSeq(s, a, CloseAt(s) - 1)
ExpandTime(s, rendered) ==
    IF ~HasTimePattern(s) THEN s
    ELSE SubSeq(s, 1, KeyAt(s) - 1) \o rendered \o SubSeq(s, CloseAt(s) + 1, Len(s))
=============================================================================
