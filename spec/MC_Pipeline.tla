---------------------------- MODULE MC_Pipeline ----------------------------
(* Exhaustive / simulation configuration of QtlPipeline: a fixed menu of handler objects, NP pipeline
   objects whose scoped flags are chosen nondeterministically, every way of wiring them into a DAG with
   at most MaxItems entries (sharing and null entries included), then up to MaxMsgs messages. *)
EXTENDS QtlPipeline

CONSTANTS NP, MaxItems, MaxMsgs, MenuName

A == 97
B == 98

\* leaf handlers: one of each semantic kind that matters for C01/C16
MenuSmall == <<
    [kind |-> "attr", sets |-> <<[k |-> "k", t |-> "s", v |-> <<A>>]>>],
    [kind |-> "filter", mode |-> "const", arg |-> FALSE],
    [kind |-> "fmt", mode |-> "wrap", tag |-> <<B>>, key |-> ""],
    [kind |-> "sink"],
    [kind |-> "gen", ret |-> FALSE, effects |-> <<[op |-> "set", k |-> "g", t |-> "s", v |-> <<B>>]>>]
>>

MenuFull == MenuSmall \o <<
    [kind |-> "seq", name |-> "n"],
    [kind |-> "dup"],
    [kind |-> "level", min |-> "warning"],
    [kind |-> "filter", mode |-> "hasattr", arg |-> "k"],
    [kind |-> "gen", ret |-> TRUE, effects |-> <<[op |-> "clearfmt", k |-> "", t |-> "s", v |-> <<>>],
                                                [op |-> "remove", k |-> "k", t |-> "s", v |-> <<>>]>>],
    [kind |-> "regex", rx |-> "contains", lit |-> <<A>>, lit2 |-> <<>>],
    [kind |-> "sink"]
>>

Menu == IF MenuName = "small" THEN MenuSmall ELSE MenuFull

Msgs == {[type |-> "debug", text |-> <<A>>, cat |-> <<A>>],
         [type |-> "warning", text |-> <<A>>, cat |-> <<A>>],
         [type |-> "warning", text |-> <<B>>, cat |-> <<A>>]}

NL == Len(Menu)
Pipes == 1..NP
Leaves == (NP + 1)..(NP + NL)

VARIABLE phase    \* "build" | "run"
mcvars == <<vars, phase>>

MCInit ==
    /\ \E sc \in [Pipes -> BOOLEAN] :
          tbl = [i \in 1..(NP + NL) |-> IF i <= NP THEN [kind |-> "pipe", scoped |-> sc[i], items |-> <<>>]
                                        ELSE Menu[i - NP]]
    /\ parent = [i \in 1..(NP + NL) |-> 0]
    /\ hst = [i \in 1..(NP + NL) |-> IF tbl[i].kind = "dup" THEN <<>> ELSE 0]
    /\ root = 1
    /\ stack = <<>> /\ cur = NoMsg /\ out = <<>>
    /\ ref = [hst |-> <<>>, out |-> <<>>, agree |-> TRUE]
    /\ nmsg = 0
    /\ phase = "build"

TotalItems == LET RECURSIVE Sum(_) Sum(i) == IF i = 0 THEN 0 ELSE Len(tbl[i].items) + Sum(i - 1) IN Sum(NP)

\* wiring is canonical: pipelines are filled in increasing order of identity (the order in which a tree
\* is built does not matter for evaluation), nested pipelines have a larger identity than their owner
\* (keeps the structure acyclic)
Fillable(p) == \A q \in Pipes : q > p => tbl[q].items = <<>>

MCBuild ==
    /\ phase = "build" /\ TotalItems < MaxItems
    /\ \E p \in Pipes :
        /\ Fillable(p)
        /\ \/ \E h \in Leaves : AppendItem(p, h)
           \/ \E q \in Pipes : q > p /\ AppendItem(p, q)
           \/ AppendList(p, <<0>>)
    /\ UNCHANGED phase

MCSeal == phase = "build" /\ phase' = "run" /\ UNCHANGED vars

MCStart  == phase = "run" /\ nmsg < MaxMsgs /\ \E m \in Msgs : Start(m) /\ UNCHANGED phase
MCNull   == phase = "run" /\ StepNull /\ UNCHANGED phase
MCEnter  == phase = "run" /\ StepEnter /\ UNCHANGED phase
MCLeaf   == phase = "run" /\ StepLeaf /\ UNCHANGED phase
MCLeave  == phase = "run" /\ StepLeave /\ UNCHANGED phase
MCFinish == phase = "run" /\ Finish /\ UNCHANGED phase

MCNext == MCBuild \/ MCSeal \/ MCStart \/ MCNull \/ MCEnter \/ MCLeaf \/ MCLeave \/ MCFinish
MCSpec == MCInit /\ [][MCNext]_mcvars

\* the deliveries are what matters, not the counters that drive the bounds
=============================================================================
