SPECIFICATION MCSpec
CONSTANTS
    BufCap = 3
    Ls = {3}
    Ns = {2}
    Opts = {2}
    Sizes = {2}
    MaxSends = 4
    MaxDay = 1
    MaxRestarts = 1
    MaxCrash = 0
    MaxFault = 0
    MaxGzWrites = 1
    Ticks = FALSE
    Fatal = FALSE
    FlushOnFatal = TRUE
    ZoneBack = TRUE
    ZoneTies = FALSE
INVARIANT W_NeverZonedRotation
CHECK_DEADLOCK FALSE
