INIT IInit
NEXT INext
PROPERTY RestoreReinstates
PROPERTY NewerForeignStays
PROPERTY InstallIdempotent
PROPERTY KillIsLocal
PROPERTY LastInstalledReceives
INVARIANT ActiveIsAlive
CHECK_DEADLOCK FALSE
