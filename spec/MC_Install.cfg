INIT IInit
NEXT INext
PROPERTY RestoreReinstates
PROPERTY NewerForeignStays
PROPERTY InstallIdempotent
CHECK_DEADLOCK FALSE
