SPECIFICATION MCFairSpec
CONSTANTS Producers = {"p1"}
          Stoppers = {"M", "S2"}
          UseLogger = TRUE
          RecheckThread = TRUE
          SafeEnv = TRUE
          Locks = TRUE
          RealTime = FALSE
          Disconnect = TRUE
          FatalEvery = 0
          NMsgs = 2
          ScriptSet = {"reset", "quit", "cycle"}
          Script2Set = {"reset", "move"}
INVARIANT TypeOK
INVARIANT MutualExclusion
INVARIANT NoDoubleDelivery
INVARIANT SeqConsecutive
INVARIANT ProducerOrder
INVARIANT SyncDeliveredOnReturn
INVARIANT WorkerOnly
INVARIANT AsyncOrder
INVARIANT RealTimeOrder
INVARIANT LateMessagesSync
INVARIANT DrainBeforeStop
INVARIANT NoUseAfterFree
INVARIANT AllDeliveredAtEnd
PROPERTY ResetTerminates
CHECK_DEADLOCK FALSE
