----------------------------- MODULE QtlSorted -----------------------------
(***************************************************************************)
(* SortedPipeline (src/qtlogger/sortedpipeline.{h,cpp}): the typed          *)
(* insertion / clearing calls keep the handler list arranged as            *)
(*    attribute handlers, filters, at most one formatter, sinks, pipelines *)
(* with insertion order preserved inside a class (property C17).           *)
(*                                                                         *)
(* The state is the handler list as `Pipeline::handlers()` exposes it: a   *)
(* sequence of [c |-> class, i |-> identity of the handler object, k |->   *)
(* number of the call that inserted the entry].  The same handler object   *)
(* may be passed to several calls (ReAppendH), so "insertion order" is     *)
(* "increasing k", not increasing identity.                                *)
(* Each public call is one action, defined by the DOCUMENTED placement     *)
(* (docs/api/pipelines.md): a new handler goes after the last handler of   *)
(* its own or a lower class and before the first handler of a higher       *)
(* class; setFormatter replaces the existing formatter.                    *)
(***************************************************************************)
EXTENDS Naturals, Sequences, FiniteSets

Classes == {"attr", "filter", "formatter", "sink", "pipeline"}

Rank(c) == CASE c = "attr"      -> 1
             [] c = "filter"    -> 2
             [] c = "formatter" -> 3
             [] c = "sink"      -> 4
             [] c = "pipeline"  -> 5

VARIABLES
    \* @type: Seq({c: Str, i: Int, k: Int});
    hs,      \* the handler list
    \* @type: Int;
    next,    \* next fresh identity
    \* @type: Int;
    ncalls,  \* number of API calls made so far
    \* @type: Seq(Str);
    made     \* made[i] = class of the handler object with identity i (objects outlive their removal)

vars == <<hs, next, ncalls, made>>

Elem == [c : Classes, i : Nat, k : Nat]

TypeOK == /\ hs \in Seq(Elem)
          /\ next \in Nat \ {0}
          /\ ncalls \in Nat
          /\ made \in Seq(Classes) /\ Len(made) = next - 1

Init == hs = <<>> /\ next = 1 /\ ncalls = 0 /\ made = <<>>

---------------------------------------------------------------------------
\* Sequence helpers

\* @type: (Seq({c: Str, i: Int, k: Int}), ({c: Str, i: Int, k: Int}) => Bool) => Seq({c: Str, i: Int, k: Int});
Keep(s, P(_)) == SelectSeq(s, P)

\* @type: (Seq({c: Str, i: Int, k: Int}), Int, {c: Str, i: Int, k: Int}) => Seq({c: Str, i: Int, k: Int});
InsertAt(s, k, e) == SubSeq(s, 1, k) \o <<e>> \o SubSeq(s, k + 1, Len(s))

\* documented placement: right after the last element whose class rank is <= the new one's
\* (on a class-sorted list this is also "before the first element of a higher class")
\* @type: (Seq({c: Str, i: Int, k: Int}), Str) => Int;
LastLE(s, c) ==
    LET S == {k \in DOMAIN s : Rank(s[k].c) <= Rank(c)}
    IN  IF S = {} THEN 0 ELSE CHOOSE k \in S : \A j \in S : j <= k

\* @type: (Seq({c: Str, i: Int, k: Int}), {c: Str, i: Int, k: Int}) => Seq({c: Str, i: Int, k: Int});
Place(s, e) == InsertAt(s, LastLE(s, e.c), e)

---------------------------------------------------------------------------
\* Actions: one per public call

AppendH(c) ==        \* appendAttrHandler / appendFilter / appendSink / appendPipeline (a new handler object)
    /\ c \in Classes \ {"formatter"}
    /\ hs' = Place(hs, [c |-> c, i |-> next, k |-> ncalls + 1])
    /\ next' = next + 1 /\ made' = Append(made, c)
    /\ ncalls' = ncalls + 1

ReAppendH(i) ==      \* the same calls with a handler object that was passed before (it may still be in the list)
    /\ i \in DOMAIN made /\ made[i] # "formatter"
    /\ hs' = Place(hs, [c |-> made[i], i |-> i, k |-> ncalls + 1])
    /\ UNCHANGED <<next, made>>
    /\ ncalls' = ncalls + 1

SetFormatter ==     \* setFormatter(non-null): replaces whatever formatter is there
    /\ hs' = Place((LET \* @type: ({c: Str, i: Int, k: Int}) => Bool;
                      NotF(x) == x.c # "formatter" IN SelectSeq(hs, NotF)), [c |-> "formatter", i |-> next, k |-> ncalls + 1])
    /\ next' = next + 1 /\ made' = Append(made, "formatter")
    /\ ncalls' = ncalls + 1

ReSetFormatter(i) == \* setFormatter with a formatter object that was passed before (possibly the installed one)
    /\ i \in DOMAIN made /\ made[i] = "formatter"
    /\ hs' = Place((LET \* @type: ({c: Str, i: Int, k: Int}) => Bool;
                      NotF(x) == x.c # "formatter" IN SelectSeq(hs, NotF)), [c |-> "formatter", i |-> i, k |-> ncalls + 1])
    /\ UNCHANGED <<next, made>>
    /\ ncalls' = ncalls + 1

AppendNull ==       \* any typed call with a null pointer: documented no-op
    /\ UNCHANGED <<hs, next, made>>
    /\ ncalls' = ncalls + 1

Clear(c) ==         \* clearAttrHandlers / clearFilters / clearFormatters / clearSinks / clearPipelines / clear(type)
    /\ c \in Classes
    /\ hs' = (LET \* @type: ({c: Str, i: Int, k: Int}) => Bool;
                 NotC(x) == x.c # c IN SelectSeq(hs, NotC))
    /\ UNCHANGED <<next, made>>
    /\ ncalls' = ncalls + 1

ClearAll ==         \* clear()
    /\ hs' = <<>>
    /\ UNCHANGED <<next, made>>
    /\ ncalls' = ncalls + 1

Next == \/ \E c \in Classes \ {"formatter"} : AppendH(c)
        \/ \E i \in DOMAIN made : ReAppendH(i) \/ ReSetFormatter(i)
        \/ SetFormatter
        \/ AppendNull
        \/ \E c \in Classes : Clear(c)
        \/ ClearAll

Spec == Init /\ [][Next]_vars

---------------------------------------------------------------------------
\* Property C17

ClassSorted == \A a, b \in DOMAIN hs : a < b => Rank(hs[a].c) <= Rank(hs[b].c)

OneFormatter == Cardinality({k \in DOMAIN hs : hs[k].c = "formatter"}) <= 1

StableWithinClass == \A a, b \in DOMAIN hs : (a < b /\ hs[a].c = hs[b].c) => hs[a].k < hs[b].k

NoDuplicates == \A a, b \in DOMAIN hs : a # b => hs[a].k # hs[b].k     \* one entry per inserting call

\* consequences the statement spells out
AttrsBeforeFiltersAndFormatters ==
    \A a, b \in DOMAIN hs : (hs[a].c = "attr" /\ hs[b].c \in {"filter", "formatter"}) => a < b
FormatterBeforeSinks ==
    \A a, b \in DOMAIN hs : (hs[a].c = "formatter" /\ hs[b].c = "sink") => a < b

C17 == ClassSorted /\ OneFormatter /\ StableWithinClass /\ NoDuplicates
       /\ AttrsBeforeFiltersAndFormatters /\ FormatterBeforeSinks

\* nothing is lost or invented: an append adds exactly one element, a clear removes exactly a class
AppendAddsOne == [][ (\E c \in Classes : hs' # hs /\ Len(hs') > Len(hs)) => Len(hs') = Len(hs) + 1 ]_vars
=============================================================================
