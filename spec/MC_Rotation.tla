---------------------------- MODULE MC_Rotation ----------------------------
(* Exhaustive configuration of QtlRotation: the sink's constructor arguments are chosen in the initial
   state; the environment issues sends of every size in Sizes, explicit flushes, clean stops and restarts,
   clock ticks and day changes; every libc step may fail (within MaxFault) and the process may die between
   any two steps (within MaxCrash). *)
EXTENDS QtlRotation

CONSTANTS Ls, Ns, Opts, Sizes, MaxSends, MaxDay, MaxRestarts, MaxCrash, MaxFault, MaxGzWrites, Ticks, Fatal, FlushOnFatal, ZoneBack, ZoneTies

VARIABLE mc      \* bounds bookkeeping: [sends, faults, crashes, gzw]
mcvars == <<vars, mc>>

\* Opts: set of bit masks, 1 = RotationOnStartup, 2 = RotationDaily, 4 = Compression
Chosen == {[startup |-> (o % 2) = 1, daily |-> ((o \div 2) % 2) = 1, gz |-> ((o \div 4) % 2) = 1] : o \in Opts}

FOREIGN1 == <<2, 1, 0, 0>>

\* (a TLC configuration file cannot hold a negative number: 99 stands for a file-count limit of -1)
NVal(n) == IF n = 99 THEN 0 - 1 ELSE n

MCInit ==
    /\ \E L \in Ls, N0 \in Ns, o \in Chosen : LET N == NVal(N0) IN
          InitWith([L |-> L, N |-> N, startup |-> o.startup, daily |-> o.daily, gz |-> o.gz],
                   [n \in {FOREIGN1} |-> File("foreign", <<>>, <<0, 0>>, 7)],
                   <<>>, <<>>, <<>>, <<0, 0>>)
    /\ mc = [sends |-> 0, faults |-> 0, crashes |-> 0, gzw |-> 0, stage |-> 0, zones |-> 0]

MCCanStop == ((cfg.daily /\ cfg.N # 1) \/ g.zoned) => CanStop

\* the fatal path of Logger::processMessage: the pipeline runs for the fatal message, then (FlushOnFatal)
\* the sinks are flushed, then Qt aborts
Calm == mc.stage \in {0, 3}
MCFatal ==
    \/ /\ Fatal /\ mc.stage = 0 /\ (\E len \in Sizes : BeginSend(len)) /\ mc' = [mc EXCEPT !.stage = 1]
    \/ /\ mc.stage = 1 /\ Idle
       /\ IF FlushOnFatal THEN BeginFlush /\ mc' = [mc EXCEPT !.stage = 2]
                           ELSE Abort /\ mc' = [mc EXCEPT !.stage = 3]
    \/ /\ mc.stage = 2 /\ Idle /\ Abort /\ mc' = [mc EXCEPT !.stage = 3]

MCConstruct == Calm /\ g.restarts <= MaxRestarts /\ BeginConstruct /\ UNCHANGED mc
MCSend == Calm /\ mc.sends < MaxSends /\ (\E len \in Sizes : BeginSend(len)) /\ mc' = [mc EXCEPT !.sends = @ + 1]
MCFlush == Calm /\ sk.buf # <<>> /\ BeginFlush /\ UNCHANGED mc
MCDestroy == Calm /\ MCCanStop /\ BeginDestroy /\ UNCHANGED mc
MCInt == StepInt /\ UNCHANGED mc
\* Once the local date has gone back, two rotated files with the SAME modification time cannot be told apart by
\* anything on disk: their names no longer carry the rotation order (known finding C06 zone-tie; the witness
\* configuration MC_Rot_W_ZoneTie sets ZoneTies and shows it).  Unless ZoneTies, the clock therefore moves with every
\* write to the active file after a zone change.
MoveClock(lab) == ZoneBack /\ ~ZoneTies /\ g.zoned /\ lab.c = "write" /\ lab.f = ACTIVE
StepSysAt(lab, ok, t) ==
    /\ sk.alive /\ ~AtRest(Here) /\ NeedsSys(Here)
    /\ SysEnabled(Here, lab, ok)
    /\ Become(DoSys(Here, cfg, t, lab, ok))
    /\ now' = t /\ UNCHANGED cfg
MCSys ==
    \E lab \in (IF sk.alive /\ ~AtRest(Here) /\ NeedsSys(Here) THEN SysLabels(Here) ELSE {}), ok \in BOOLEAN :
        /\ IF MoveClock(lab) THEN StepSysAt(lab, ok, <<now[1], now[2] + 1>>) ELSE StepSys(lab, ok)
        /\ LET fcost == IF ~ok /\ sk.pc # "cpOpenDst" THEN 1 ELSE 0
               wcost == IF sk.pc = "gzBody" /\ lab.c = "write" THEN 1 ELSE 0
           IN  /\ mc.faults + fcost <= MaxFault
               /\ (wcost = 1) => mc.gzw < MaxGzWrites
               /\ mc' = [mc EXCEPT !.faults = @ + fcost,
                                   !.gzw = IF sk.pc = "gzBody" THEN @ + wcost ELSE 0]
MCCrash == Calm /\ mc.crashes < MaxCrash /\ Crash /\ mc' = [mc EXCEPT !.crashes = @ + 1]

Quiet == ~sk.alive \/ sk.pc = "idle"
\* a further tick is only distinguishable if something carries the current one
MCTick == /\ Ticks /\ Quiet
          /\ \E n \in DOMAIN dir : dir[n].mt = now
          /\ SetNow(<<now[1], now[2] + 1>>) /\ UNCHANGED mc
MCNextDay == /\ Quiet /\ now[1] < MaxDay /\ ~g.zoned
             /\ SetNow(<<now[1] + 1, 0>>) /\ UNCHANGED mc

\* (ZoneBack) once per behaviour the local date goes back by one day while time goes on; not while the sink holds
\* records of the old day in its buffer or its file would be stopped over (the stop rule of the environment)
\* (a sink constructed - or initialised by its first record - in the new zone over a non-empty file of the old one attributes the file to the wrong day -
\* it has nothing but the modification time to go by; like stopping over a stale file this is outside C09)
MCZone == /\ ZoneBack /\ Quiet /\ mc.zones < 2 /\ now[1] >= 1
          /\ (IF sk.alive /\ sk.inited THEN TRUE ELSE IF ACTIVE \in DOMAIN dir THEN dir[ACTIVE].recs = <<>> ELSE TRUE)
          /\ LET z == IF g.tz = 0 THEN 0 - 1 ELSE 0 IN
                \* with a retention limit, the day the calendar goes (back) to has left no rotated names behind (an index
                \* freed by retention would be handed out again: the naming scheme relies on a date that does not return);
                \* without one, returning to a day that has rotated files is fine - the next index is one more than theirs
                /\ (cfg.N <= 0 \/ \A u \in g.used : u[2] # now[1] + z)
                /\ ShiftZone(z, <<now[1], now[2] + 1>>)
          /\ mc' = [mc EXCEPT !.zones = @ + 1]

MCNext == MCZone \/ MCFatal \/ MCConstruct \/ MCSend \/ MCFlush \/ MCDestroy \/ MCInt \/ MCSys \/ MCCrash \/ MCTick \/ MCNextDay
MCSpec == MCInit /\ [][MCNext]_mcvars
=============================================================================
