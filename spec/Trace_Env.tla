------------------------------ MODULE Trace_Env ------------------------------
(* Recorded histories of the environment attribute handlers (harness/drv_env.cpp, mode attrs): a chain of real
   processes sharing one settings directory; every event is one action of QtlEnv with the answers the real handlers
   gave.  UUID strings are numbered by the glue in the order of their first appearance within a history (a pure
   renaming), so "the model generates its next UUID here" and "the code showed a string never seen before" must
   coincide, and so must "the model reads the stored one" and "the code showed that very string again". *)
EXTENDS QtlEnv, Json, IOUtils

TraceLog == ndJsonDeserialize(IOEnv.TRACE)
VARIABLES l,        \* position in the trace
          proc,     \* the running process as the operating system sees it: [pid, path, dir]
          nm,       \* identity -> application name (from the setapp calls the script made)
          uname     \* handler -> attribute name given to AppUuidAttr's constructor
tvars == <<evars, l, proc, nm, uname>>
ev == TraceLog[l]
IsEvent(e) == l <= Len(TraceLog) /\ TraceLog[l].e = e /\ l' = l + 1
IsOp(o) == IsEvent("A") /\ TraceLog[l].op = o

SysKeys == <<"boot_unique_id", "build_abi", "build_cpu_arch", "cpu_arch", "kernel_type", "kernel_version",
             "machine_host_name", "machine_unique_id", "os_name", "os_version", "pretty_product_name">>

Hex(c) == (c >= 48 /\ c <= 57) \/ (c >= 97 /\ c <= 102)
\* "without braces (e.g. 550e8400-e29b-41d4-a716-446655440000)"
WellFormedUuid(u) == /\ Len(u) = 36
                     /\ \A i \in 1..36 : IF i \in {9, 14, 19, 24} THEN u[i] = 45 ELSE Hex(u[i])

NoProc == [pid |-> "", path |-> "", dir |-> ""]
TInit == /\ EInit /\ l = 1 /\ proc = NoProc /\ nm = [a \in Apps |-> ""] /\ uname = [h \in H |-> ""]

TReset == /\ IsEvent("Reset")
          /\ app' = [id |-> "-", ver |-> ""] /\ store' = [a \in Apps |-> 0] /\ hs' = [h \in H |-> None]
          /\ fresh' = 0 /\ epoch' = [a \in Apps |-> 0] /\ issued' = {}
          /\ proc' = NoProc /\ nm' = [a \in Apps |-> ""] /\ uname' = [h \in H |-> ""]

\* a process starts: nothing is set yet (Qt's default application name is the executable's, no organization, no version)
TStart == /\ IsEvent("Start")
          /\ app.id = "-" /\ \A h \in H : hs[h].k = "none"
          /\ ev.org = "" /\ ev.ver = ""
          /\ proc' = [pid |-> ev.pid, path |-> ev.path, dir |-> ev.dir]
          /\ UNCHANGED <<evars, nm, uname>>

TSetApp == /\ IsOp("setapp") /\ SetApp(ev.id, ev.ver)
           /\ nm' = [nm EXCEPT ![ev.id] = ev.name]
           /\ UNCHANGED <<proc, uname>>

TNewInfo == IsOp("info") /\ NewInfo(ev.h) /\ UNCHANGED <<proc, nm, uname>>
TNewSys == /\ IsOp("sys") /\ NewSys(ev.h) /\ UNCHANGED <<proc, nm, uname>>

\* the constructor's answer is looked at right away: attribute name as given, the UUID the model expects, well-formed
TNewUuid == /\ IsOp("uuid") /\ NewUuid(ev.h)
            /\ Len(ev.attrs) = 1
            /\ ev.attrs[1][1] = ev.name /\ ev.attrs[1][3] = "QString"
            /\ hs'[ev.h].uuid = ev.u
            /\ WellFormedUuid(ev.uu)
            /\ uname' = [uname EXCEPT ![ev.h] = ev.name]
            /\ UNCHANGED <<proc, nm>>

InfoAnswer(h) == <<<<"appdir", proc.dir, "QString">>, <<"appname", nm[hs[h].id], "QString">>,
                   <<"apppath", proc.path, "QString">>, <<"appversion", hs[h].ver, "QString">>,
                   <<"pid", proc.pid, "qlonglong">>>>
TAsk == /\ IsOp("msg") /\ Ask(ev.h)
        /\ CASE hs[ev.h].k = "info" -> hs[ev.h].id \in Apps /\ ev.attrs = InfoAnswer(ev.h)
             [] hs[ev.h].k = "uuid" -> /\ Len(ev.attrs) = 1 /\ ev.attrs[1][1] = uname[ev.h]
                                       /\ ev.u = hs[ev.h].uuid /\ ev.attrs[1][3] = "QString"
             [] hs[ev.h].k = "sys" -> /\ Len(ev.attrs) = Len(SysKeys)
                                      /\ \A i \in 1..Len(SysKeys) : /\ ev.attrs[i][1] = SysKeys[i]
                                                                    /\ ev.attrs[i][2] = ev.want[i]
                                                                    /\ ev.attrs[i][3] = "QString"
        /\ UNCHANGED <<proc, nm, uname>>

TDrop == IsOp("drop") /\ Drop(ev.h) /\ uname' = [uname EXCEPT ![ev.h] = ""] /\ UNCHANGED <<proc, nm>>

TRestart == /\ IsOp("restart") /\ Restart({ev.wipe[i] : i \in 1..Len(ev.wipe)})
            /\ proc' = NoProc /\ uname' = [h \in H |-> ""] /\ UNCHANGED nm

\* Two more instances of the application built their AppUuidAttr at the same moment (handlers ev.h1, ev.h2, both free
\* before).  The driver saw only the outcome, so the four steps - each instance's read and write - are events without
\* arguments and TLC places them; the closing event carries what the two instances showed and what the settings hold.
TRaceStep == /\ IsOp("rstep")
             /\ \E h \in {ev.h1, ev.h2} : UuidRead(h) \/ UuidWrite(h)
             /\ UNCHANGED <<proc, nm, uname>>
TRaceEnd == /\ IsOp("rend")
            /\ hs[ev.h1].k = "uuid" /\ hs[ev.h2].k = "uuid"
            /\ hs[ev.h1].uuid = ev.u1 /\ hs[ev.h2].uuid = ev.u2
            /\ store[app.id] = ev.stored
            /\ WellFormedUuid(ev.uu1) /\ WellFormedUuid(ev.uu2)
            /\ hs' = [hs EXCEPT ![ev.h1] = None, ![ev.h2] = None]       \* the two instances have ended
            /\ UNCHANGED <<app, store, fresh, epoch, issued, proc, nm, uname>>

TNext == TRaceStep \/ TRaceEnd \/ TReset \/ TStart \/ TSetApp \/ TNewInfo \/ TNewSys \/ TNewUuid \/ TAsk \/ TDrop \/ TRestart
TraceSpec == TInit /\ [][TNext]_tvars
TraceAccepted ==
    LET d == TLCGet("stats").diameter
    IN  /\ PrintT(<<"TRACE_MATCHED", d - 1, Len(TraceLog)>>)
        /\ d - 1 = Len(TraceLog)
=============================================================================
