---------------------------- MODULE Trace_Utils ----------------------------
(* Recorded histories of setMessagePattern / restorePreviousMessagePattern / direct qSetMessagePattern calls (one child
   process per history, because the library's two slots are function-local statics) and of setFilterRules probes. *)
EXTENDS QtlUtils, Json, IOUtils, TLC

TraceLog == ndJsonDeserialize(IOEnv.TRACE)
VARIABLE l
ev == TraceLog[l]
IsEvent(e) == l <= Len(TraceLog) /\ TraceLog[l].e = e /\ l' = l + 1

TInit == l = 1 /\ UInit
TReset == IsEvent("Reset") /\ cur' = "default" /\ prev' = "default" /\ qt' = "default" /\ ret' = "-"
TOp == /\ IsEvent("P")
       /\ CASE ev.op = "set" -> Set(ev.arg)
            [] ev.op = "restore" -> RestorePrev
            [] ev.op = "foreign" -> Foreign(ev.arg)
       /\ qt' = ev.qt                               \* the pattern Qt formats with, recognised from a formatted probe
       /\ (ev.op # "foreign" => ret' = ev.ret)      \* what the call returned
\* setFilterRules(s): every category probe is enabled exactly as Qt's own rule evaluation of the split rules says
\* (the harness evaluates the split rules with QLoggingCategory::setFilterRules on a newline-joined string)
TRules == /\ IsEvent("Rules")
          /\ SplitRules(ev.arg) = ev.split
          /\ ev.got = ev.want
          /\ UNCHANGED uvars
\* FileSink path with a time pattern: exactly one file appears, named by the expansion (the harness renders the format
\* the specification extracts with Qt's own QDateTime, just before and just after the sink was built)
TTimePath == /\ IsEvent("TimePath")
             /\ (HasTimePattern(ev.arg) => TimeFormatOf(ev.arg) = ev.fmt)
             /\ Len(ev.names) = 1
             /\ \E k \in 1..Len(ev.rendered) : ev.names[1] = ExpandTime(ev.arg, ev.rendered[k])
             /\ UNCHANGED uvars
TraceSpec == TInit /\ [][TReset \/ TOp \/ TRules \/ TTimePath]_<<uvars, l>>
TraceAccepted ==
    LET d == TLCGet("stats").diameter
    IN  /\ PrintT(<<"TRACE_MATCHED", d - 1, Len(TraceLog)>>)
        /\ d - 1 = Len(TraceLog)
=============================================================================
