SPECIFICATION Spec
CONSTANTS MaxLen = 4
          MaxW = 5
          MaxTok = 4
