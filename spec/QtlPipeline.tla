---------------------------- MODULE QtlPipeline ----------------------------
(***************************************************************************)
(* The handler pipeline of qtlogger (pipeline.cpp, handler.h, the per-kind *)
(* process() adapters in attrhandler.h/filter.h/formatter.h/sink.h,        *)
(* functionhandler.h, simplepipeline.cpp) and the built-in stateful        *)
(* handlers (LevelFilter, DuplicateFilter, RegExpFilter, CategoryFilter,   *)
(* SeqNumberAttr).  Properties C01 and C16.                                *)
(*                                                                         *)
(* Shape: `tbl` is the table of handler objects (identity = index), a      *)
(* pipeline object holds `items` (identities, 0 = null entry) and          *)
(* `scoped`.  Evaluation is a small-step machine with an explicit frame    *)
(* stack - one frame per active Pipeline::process() call - so that each    *)
(* line of pipeline.cpp:52-77 is one kind of step:                         *)
(*   Enter  (push frame, remember formatted text + attributes)             *)
(*   Null   (skip a null entry)                                            *)
(*   Leaf   (call handler->process(); on false jump to the end = `break`)  *)
(*   Leave  (restore iff scoped; ALWAYS report true to the parent)          *)
(* The property text is transcribed a second time, independently, as the   *)
(* recursive big-step evaluator REval; invariant Agree says both coincide. *)
(***************************************************************************)
EXTENDS QtlCategory, TLC

VARIABLES tbl,      \* Seq of handler records; identity = index
          parent,   \* SimplePipeline parent link: child id -> parent id (0 = none), as a Seq
          root,     \* identity of the pipeline messages are sent to (0 = not chosen yet)
          hst,      \* per-handler mutable state (Seq parallel to tbl): counter / last text
          stack,    \* active Pipeline::process() frames, innermost last
          cur,      \* message in flight (cur.id = 0: none)
          out,      \* deliveries so far: Seq of [sink, msg, text, attrs]
          ref,      \* reference evaluator's state after the messages finished so far: [hst, out]
          nmsg      \* number of messages started

vars == <<tbl, parent, root, hst, stack, cur, out, ref, nmsg>>

NoMsg == [id |-> 0]
NoFmt == [f |-> FALSE, t |-> <<>>]          \* null QString = "not formatted"
EmptyAttrs == [k \in {} |-> 0]

\* severity ranking of LevelFilter::priority (NOT the QtMsgType enum order)
Sev(t) == CASE t = "debug" -> 0 [] t = "info" -> 1 [] t = "warning" -> 2
            [] t = "critical" -> 3 [] t = "fatal" -> 4

Merge(a, b) == [k \in (DOMAIN a) \cup (DOMAIN b) |-> IF k \in DOMAIN b THEN b[k] ELSE a[k]]
Without(a, key) == [k \in (DOMAIN a) \ {key} |-> a[k]]
\* a list of [k, t, v] (as handlers return it / as the harness logs it) -> attribute map; later wins
RECURSIVE AttrsOfFrom(_, _, _)
AttrsOfFrom(s, i, acc) ==
    IF i > Len(s) THEN acc
    ELSE AttrsOfFrom(s, i + 1, Merge(acc, [k \in {s[i].k} |-> [t |-> s[i].t, v |-> s[i].v]]))
AttrsOf(s) == AttrsOfFrom(s, 1, EmptyAttrs)

\* what a sink (or anybody calling formattedMessage()) sees
FmtText(m) == IF m.fmt.f THEN m.fmt.t ELSE m.text

IsPipe(h) == tbl[h].kind = "pipe"

---------------------------------------------------------------------------
\* Decision rules of the built-in handlers (C16)

LevelRule(min, type) == Sev(type) >= Sev(min)

DupRule(last, text) == text # last                 \* pass iff different from the text seen just before

\* PCRE `$` also matches before a final newline (10)
RegexRule(h, text) ==
    CASE h.rx = "contains"  -> Contains(text, h.lit)
      [] h.rx = "prefix"    -> StartsWith(text, h.lit)
      [] h.rx = "suffix"    -> EndsWith(text, h.lit) \/ EndsWith(text, h.lit \o <<10>>)
      [] h.rx = "emptyonly" -> text = <<>> \/ text = <<10>>
      [] h.rx = "any"       -> TRUE
      [] h.rx = "alt"       -> Contains(text, h.lit) \/ Contains(text, h.lit2)
      [] h.rx = "icontains" -> Contains(LowerSeq(text), LowerSeq(h.lit))
      \* the literal written with blanks between its characters and a "# comment" behind it, extended pattern syntax:
      \* blanks and the comment are not part of the expression
      [] h.rx = "xcontains" -> Contains(text, h.lit)
      [] h.rx = "backref"   -> Contains(text, <<97, 97>>) \/ Contains(text, <<98, 98>>)       \* ([ab])\1
      [] h.rx = "group"     -> h.lit # <<>> /\ (EndsWith(text, h.lit) \/ EndsWith(text, h.lit \o <<10>>))   \* (lit)+$

FilterRule(h, m) ==
    CASE h.mode = "const"   -> h.arg
      [] h.mode = "hasattr" -> h.arg \in DOMAIN m.attrs
      [] h.mode = "isfmt"   -> m.fmt.f
      [] h.mode = "type"    -> m.type = h.arg

\* QVariant::toString() of an attribute value: strings as they are, integers in decimal
AttrText(a) == IF a.t = "i" THEN DecDigits(a.v[1]) ELSE a.v

FmtResult(h, m) ==
    CASE h.mode = "const" -> h.tag
      [] h.mode = "wrap"  -> h.tag \o FmtText(m)
      [] h.mode = "attr"  -> h.tag \o (IF h.key \in DOMAIN m.attrs THEN AttrText(m.attrs[h.key]) ELSE <<>>)
      [] h.mode = "raw"   -> h.tag \o m.text

RECURSIVE GenEffects(_, _, _)
GenEffects(es, i, m) ==
    IF i > Len(es) THEN m
    ELSE LET e == es[i]
             m2 == CASE e.op = "set"      -> [m EXCEPT !.attrs = Merge(@, [k \in {e.k} |-> [t |-> e.t, v |-> e.v]])]
                     [] e.op = "remove"   -> [m EXCEPT !.attrs = Without(@, e.k)]
                     [] e.op = "setfmt"   -> [m EXCEPT !.fmt = [f |-> TRUE, t |-> e.v]]
                     [] e.op = "clearfmt" -> [m EXCEPT !.fmt = NoFmt]
         IN  GenEffects(es, i + 1, m2)

\* One call of handler->process() for a non-pipeline handler.  R = [cur, hst, out].
\* Result [ok, cur, hst, out].
ApplyLeaf(h, R) ==
    LET d == tbl[h]
        m == R.cur
        same(ok) == [ok |-> ok, cur |-> m, hst |-> R.hst, out |-> R.out]
    IN  CASE d.kind = "attr"   -> [same(TRUE) EXCEPT !.cur.attrs = Merge(m.attrs, AttrsOf(d.sets))]
          [] d.kind = "seq"    -> [same(TRUE) EXCEPT
                                     !.cur.attrs = Merge(m.attrs, [k \in {d.name} |-> [t |-> "i", v |-> <<R.hst[h]>>]]),
                                     !.hst[h] = @ + 1]
          [] d.kind = "filter" -> same(FilterRule(d, m))
          [] d.kind = "level"  -> same(LevelRule(d.min, m.type))
          [] d.kind = "dup"    -> [same(DupRule(R.hst[h], m.text)) EXCEPT !.hst[h] = m.text]
          [] d.kind = "regex"  -> same(RegexRule(d, m.text))
          [] d.kind = "cat"    -> same(Verdict(d.rules, m.cat, m.type))
          [] d.kind = "fmt"    -> [same(TRUE) EXCEPT !.cur.fmt = [f |-> TRUE, t |-> FmtResult(d, m)]]
          [] d.kind = "gen"    -> [same(d.ret) EXCEPT !.cur = GenEffects(d.effects, 1, m)]
          [] d.kind = "sink"   -> [same(TRUE) EXCEPT
                                     !.out = Append(@, [sink |-> h, msg |-> m.id, text |-> FmtText(m), attrs |-> m.attrs,
                                                        raw |-> m.text, fmt |-> m.fmt])]
          [] d.kind = "probe"  -> same(TRUE)

---------------------------------------------------------------------------
\* Reference: the statement of C01 as a big-step evaluator.
\*   "handlers run in insertion order; a rejecting handler skips only the rest of its own pipeline;
\*    a nested pipeline never stops its parent; what a scoped sub-pipeline set is invisible once it
\*    ends, what an unscoped one set persists"

RECURSIVE RItems(_, _, _), RHandler(_, _)
RItems(items, k, R) ==
    IF k > Len(items) THEN R
    ELSE IF items[k] = 0 THEN RItems(items, k + 1, R)
    ELSE LET r == RHandler(items[k], R)
         IN  IF r.ok THEN RItems(items, k + 1, [cur |-> r.cur, hst |-> r.hst, out |-> r.out])
             ELSE [cur |-> r.cur, hst |-> r.hst, out |-> r.out]
RHandler(h, R) ==
    IF IsPipe(h)
    THEN LET inner == RItems(tbl[h].items, 1, R)
         IN  [ok |-> TRUE, hst |-> inner.hst, out |-> inner.out,
              cur |-> IF tbl[h].scoped
                      THEN [inner.cur EXCEPT !.fmt = R.cur.fmt, !.attrs = R.cur.attrs]
                      ELSE inner.cur]
    ELSE ApplyLeaf(h, R)

REval(m, rs) == RHandler(root, [cur |-> m, hst |-> rs.hst, out |-> rs.out])

---------------------------------------------------------------------------
\* Small-step machine shaped like Pipeline::process.  S = [stack, cur, hst, out].

Top(S) == S.stack[Len(S.stack)]
ItemsOf(f) == tbl[f.pl].items
AtEnd(S) == Top(S).idx > Len(ItemsOf(Top(S)))
CurItem(S) == ItemsOf(Top(S))[Top(S).idx]

Frame(p, m) == [pl |-> p, idx |-> 1, sfmt |-> m.fmt, sattrs |-> m.attrs]

Advance(S) == [S EXCEPT !.stack[Len(S.stack)].idx = @ + 1]
ToEnd(S) == [S EXCEPT !.stack[Len(S.stack)].idx = Len(ItemsOf(Top(S))) + 1]     \* `break`

DoEnter(S) == [S EXCEPT !.stack = Append(@, Frame(CurItem(S), S.cur))]

DoLeave(S) ==
    LET f == Top(S)
        restored == IF tbl[f.pl].scoped
                    THEN [S.cur EXCEPT !.fmt = f.sfmt, !.attrs = f.sattrs]
                    ELSE S.cur
        popped == [S EXCEPT !.stack = SubSeq(@, 1, Len(@) - 1), !.cur = restored]
    IN  IF Len(popped.stack) = 0 THEN popped ELSE Advance(popped)     \* process() returned true

DoLeaf(S) ==
    LET r == ApplyLeaf(CurItem(S), [cur |-> S.cur, hst |-> S.hst, out |-> S.out])
        S2 == [S EXCEPT !.cur = r.cur, !.hst = r.hst, !.out = r.out]
    IN  IF r.ok THEN Advance(S2) ELSE ToEnd(S2)

Here == [stack |-> stack, cur |-> cur, hst |-> hst, out |-> out]
Become(S) == /\ stack' = S.stack /\ cur' = S.cur /\ hst' = S.hst /\ out' = S.out

Running == cur.id # 0 /\ Len(stack) > 0

---------------------------------------------------------------------------
\* Builder actions (pipeline.cpp append/operator<<, simplepipeline.cpp pipeline()/end())

Building == cur.id = 0

NewHandler(d) ==                                  \* construct a handler object
    /\ Building
    /\ tbl' = Append(tbl, d)
    /\ parent' = Append(parent, 0)
    /\ hst' = Append(hst, IF d.kind = "dup" THEN <<>> ELSE 0)
    /\ UNCHANGED <<root, stack, cur, out, ref, nmsg>>

AppendItem(p, h) ==                               \* Pipeline::append(handler): null pointers are ignored
    /\ Building
    /\ IsPipe(p)
    /\ tbl' = IF h = 0 THEN tbl ELSE [tbl EXCEPT ![p].items = Append(@, h)]
    /\ UNCHANGED <<parent, root, hst, stack, cur, out, ref, nmsg>>

AppendList(p, hs) ==                              \* append(initializer_list) / list constructor: nulls are kept
    /\ Building
    /\ IsPipe(p)
    /\ tbl' = [tbl EXCEPT ![p].items = @ \o hs]
    /\ UNCHANGED <<parent, root, hst, stack, cur, out, ref, nmsg>>

Child(p) ==                                       \* SimplePipeline::pipeline(): scoped child with parent link
    /\ Building
    /\ IsPipe(p)
    /\ LET c == Len(tbl) + 1
       IN  /\ tbl' = Append([tbl EXCEPT ![p].items = Append(@, c)],
                            [kind |-> "pipe", scoped |-> TRUE, items |-> <<>>])
           /\ parent' = Append(parent, p)
           /\ hst' = Append(hst, 0)
    /\ UNCHANGED <<root, stack, cur, out, ref, nmsg>>

EndOf(p) == IF parent[p] # 0 THEN parent[p] ELSE p     \* SimplePipeline::end()

FluentLeaf(p, d) ==                               \* SimplePipeline::addSeqNumber()/filter(...)/format(...)/handler(...):
    /\ Building                                   \* constructs the handler and appends it
    /\ IsPipe(p)
    /\ tbl' = Append([tbl EXCEPT ![p].items = Append(@, Len(tbl) + 1)], d)
    /\ parent' = Append(parent, 0)
    /\ hst' = Append(hst, IF d.kind = "dup" THEN <<>> ELSE 0)
    /\ UNCHANGED <<root, stack, cur, out, ref, nmsg>>

RemoveItem(p, h) ==                               \* Pipeline::remove(handler): removes every occurrence
    /\ Building
    /\ IsPipe(p)
    /\ tbl' = IF h = 0 THEN tbl ELSE [tbl EXCEPT ![p].items = SelectSeq(@, LAMBDA x : x # h)]
    /\ UNCHANGED <<parent, root, hst, stack, cur, out, ref, nmsg>>

ClearItems(p) ==                                  \* Pipeline::clear()
    /\ Building
    /\ IsPipe(p)
    /\ tbl' = [tbl EXCEPT ![p].items = <<>>]
    /\ UNCHANGED <<parent, root, hst, stack, cur, out, ref, nmsg>>

SetRoot(p) ==
    /\ Building
    /\ IsPipe(p)
    /\ root' = p
    /\ UNCHANGED <<tbl, parent, hst, stack, cur, out, ref, nmsg>>

---------------------------------------------------------------------------
\* Evaluation actions

Start(m) ==                                       \* root->process(lmsg) is called
    /\ Building
    /\ root # 0
    /\ nmsg' = nmsg + 1
    /\ LET msg == [id |-> nmsg + 1, type |-> m.type, text |-> m.text, cat |-> m.cat,
                   fmt |-> NoFmt, attrs |-> EmptyAttrs]
       IN  /\ cur' = msg
           /\ stack' = <<Frame(root, msg)>>
    /\ ref' = [ref EXCEPT !.hst = hst]               \* the reference starts from the same handler states
    /\ UNCHANGED <<tbl, parent, root, hst, out>>

StepNull  == Running /\ ~AtEnd(Here) /\ CurItem(Here) = 0 /\ Become(Advance(Here))
             /\ UNCHANGED <<tbl, parent, root, ref, nmsg>>
StepEnter == Running /\ ~AtEnd(Here) /\ CurItem(Here) # 0 /\ IsPipe(CurItem(Here)) /\ Become(DoEnter(Here))
             /\ UNCHANGED <<tbl, parent, root, ref, nmsg>>
StepLeaf  == Running /\ ~AtEnd(Here) /\ CurItem(Here) # 0 /\ ~IsPipe(CurItem(Here)) /\ Become(DoLeaf(Here))
             /\ UNCHANGED <<tbl, parent, root, ref, nmsg>>
StepLeave == Running /\ AtEnd(Here) /\ Become(DoLeave(Here))
             /\ UNCHANGED <<tbl, parent, root, ref, nmsg>>

FinishFrom(S) ==                                  \* the outermost process() has returned (machine state S)
    /\ S.cur.id # 0 /\ Len(S.stack) = 0
    /\ LET r == REval([S.cur EXCEPT !.fmt = NoFmt, !.attrs = EmptyAttrs], ref)
       IN  ref' = [hst |-> r.hst, out |-> r.out,
                   agree |-> (r.hst = S.hst /\ r.cur.fmt = S.cur.fmt /\ r.cur.attrs = S.cur.attrs)]
    /\ cur' = NoMsg /\ stack' = <<>> /\ hst' = S.hst /\ out' = S.out
    /\ UNCHANGED <<tbl, parent, root, nmsg>>

Finish == FinishFrom(Here)

\* Handlers whose invocation the harness can see (it supplies their bodies); the built-in classes
\* (SeqNumberAttr, LevelFilter, DuplicateFilter, RegExpFilter, CategoryFilter) run unobserved.
Observable(h) == tbl[h].kind \in {"attr", "filter", "fmt", "gen", "sink", "probe"}

\* run the machine through everything that cannot be observed, up to the next observable handler call
\* (or to the end of the message)
RECURSIVE Settle(_)
Settle(S) ==
    IF Len(S.stack) = 0 THEN S
    ELSE IF AtEnd(S) THEN Settle(DoLeave(S))
    ELSE IF CurItem(S) = 0 THEN Settle(Advance(S))
    ELSE IF IsPipe(CurItem(S)) THEN Settle(DoEnter(S))
    ELSE IF Observable(CurItem(S)) THEN S
    ELSE Settle(DoLeaf(S))

---------------------------------------------------------------------------
\* SimplePipeline::flush(): every sink below this pipeline is flushed, in list order, through nested pipelines of
\* every class and depth (null entries skipped; a pipeline that is a child twice is walked twice).  This is the walk
\* Logger::processMessage relies on after a fatal message (C11).
RECURSIVE FlushFrom(_, _)
FlushWalk(p) == FlushFrom(tbl[p].items, 1)
FlushFrom(items, k) ==
    IF k > Len(items) THEN <<>>
    ELSE LET h == items[k]
             here == IF h = 0 THEN <<>>
                     ELSE IF tbl[h].kind = "sink" THEN <<h>>
                     ELSE IF tbl[h].kind = "pipe" THEN FlushFrom(tbl[h].items, 1)
                     ELSE <<>>
         IN  here \o FlushFrom(items, k + 1)

Init ==
    /\ tbl = <<>> /\ parent = <<>> /\ root = 0 /\ hst = <<>>
    /\ stack = <<>> /\ cur = NoMsg /\ out = <<>>
    /\ ref = [hst |-> <<>>, out |-> <<>>, agree |-> TRUE]
    /\ nmsg = 0

---------------------------------------------------------------------------
\* Properties

\* C01: after every completed message the real deliveries and handler states are what in-order
\* evaluation of the tree predicts (same sinks, same order, same text, same attributes)
\* (and the message object itself is left with the same formatted text / attributes)
Agree == (cur.id = 0) => (out = ref.out /\ ref.agree)

\* a sink always gets the latest formatted text, or the raw message when nothing formatted it
SinkTextRule ==
    \A k \in 1..Len(out) : out[k].text = (IF out[k].fmt.f THEN out[k].fmt.t ELSE out[k].raw)

\* action properties on the frame discipline (pipeline.cpp:57-62, 70-76)
LeaveStep == Running /\ AtEnd(Here) /\ Len(stack') = Len(stack) - 1

\* a nested pipeline never stops its parent: leaving a child advances the parent by exactly one item
ChildNeverStopsParent ==
    [][ (LeaveStep /\ Len(stack) > 1) => stack'[Len(stack')].idx = stack[Len(stack) - 1].idx + 1 ]_vars

\* scoped => formatted text and attributes are what they were on entry; unscoped => untouched by Leave
ScopedInvisible ==
    [][ LeaveStep => IF tbl[Top(Here).pl].scoped
                     THEN cur'.fmt = Top(Here).sfmt /\ cur'.attrs = Top(Here).sattrs
                     ELSE cur'.fmt = cur.fmt /\ cur'.attrs = cur.attrs ]_vars

\* rejection skips the rest of *this* pipeline only: a leaf step never changes the stack depth
RejectionIsLocal ==
    [][ (Running /\ ~AtEnd(Here) /\ CurItem(Here) # 0 /\ ~IsPipe(CurItem(Here)))
            => Len(stack') = Len(stack) ]_vars

\* C16: sequence numbers handed out by one SeqNumberAttr object are consecutive in invocation order
\* (stated on the counter: it only ever grows by one per invocation, never resets)
SeqMonotone ==
    [][ \A h \in 1..Len(hst) : (h <= Len(tbl) /\ tbl[h].kind = "seq" /\ h <= Len(hst'))
            => (hst'[h] = hst[h] \/ hst'[h] = hst[h] + 1) ]_vars
=============================================================================
