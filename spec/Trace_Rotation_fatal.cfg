SPECIFICATION TraceSpec
CONSTANT BufCap = 16384
INVARIANT TypeOK
INVARIANT ReadBackIsHistory
INVARIANT FlushedRecoverable
INVARIANT SizeBound
POSTCONDITION TraceAccepted
CHECK_DEADLOCK FALSE
